"""Independent transcription of the InSim v9 (LFS 0.7x InSim.txt) and InSim-Relay packet layouts.

This file is the ORACLE of C02 and is deliberately not derived from the repository: offsets,
widths, enumerant numbers and bit positions below come from the specification documents (written
down from knowledge of them - the sandbox holds no copy). Rust-side names (struct, field, variant,
flag constant) are needed to address the typed values and are cross-checked against the source at
generation time: a field/variant/flag that exists on one side only stops the run (exit 2).

Field descriptors (tuples, first element = kind):
  ("id", field, NewType)            one byte newtype (ReqI, PLID, UCID, ClickID)
  ("u8"|"u16"|"u32"|"i16"|"i32"|"f32", field)
  ("z", n)                          n spare bytes, must be written as zero
  ("enum", field, EnumName)         one byte, numbers from ENUMS
  ("flags", field, FlagsName)       width/bits from FLAGS
  ("bool", field)                   one byte 0/1
  ("char", field)                   one byte character
  ("dur", field, "u16"|"u32", ms_per_unit)
  ("str", field, N [, raw])         fixed width text, NUL padded
  ("strv", field, MAX)              variable width text, NUL padded to a multiple of 4 (see C11)
  ("veh", field) ("trk", field) ("racelaps", field) ("fuel", field, TypeName)
  ("pt_i32", field)                 Vec: three little-endian ints
  ("sub", field, SubName)           nested layout from SUBS
  ("arr", field, n, item)           n consecutive items (item = descriptor with field None)
  ("count", vecfield)               one byte = number of elements in vecfield
  ("vec", field, item, per_elem_bytes)
  ("special", field, Name)          hand-written in tools/gen_packets.py (documented there)
"""

ENUMS = {
    "TinyType": [("None", 0), ("Ver", 1), ("Close", 2), ("Ping", 3), ("Reply", 4), ("Vtc", 5), ("Scp", 6), ("Sst", 7),
                 ("Gth", 8), ("Mpe", 9), ("Ism", 10), ("Ren", 11), ("Clr", 12), ("Ncn", 13), ("Npl", 14), ("Res", 15),
                 ("Nlp", 16), ("Mci", 17), ("Reo", 18), ("Rst", 19), ("Axi", 20), ("Axc", 21), ("Rip", 22), ("Nci", 23),
                 ("Alc", 24), ("Axm", 25), ("Slc", 26), ("Mal", 27), ("Plh", 28), ("Ipb", 29)],
    "TtcType": [("Sel", 1), ("SelStart", 2), ("SelStop", 3)],
    "RaceInProgress": [("No", 0), ("Racing", 1), ("Qualifying", 2)],
    "CameraView": [("Follow", 0), ("Heli", 1), ("Cam", 2), ("Driver", 3), ("Custom", 4), ("Another", 255)],
    "Wind": [("None", 0), ("Weak", 1), ("Strong", 2)],
    "MsoUserType": [("System", 0), ("User", 1), ("Prefix", 2), ("O", 3)],
    "SoundType": [("Silent", 0), ("Message", 1), ("SysMessage", 2), ("InvalidKey", 3), ("Error", 4)],
    "VtnAction": [("None", 0), ("End", 1), ("Restart", 2), ("Qualify", 3)],
    "CnlReason": [("Disco", 0), ("Timeout", 1), ("LostConn", 2), ("Kicked", 3), ("Banned", 4), ("Security", 5),
                  ("Cpw", 6), ("Oos", 7), ("Joos", 8), ("Hack", 9)],
    "TyreCompound": [("R1", 0), ("R2", 1), ("R3", 2), ("R4", 3), ("RoadSuper", 4), ("RoadNormal", 5), ("Hybrid", 6),
                     ("Knobbly", 7), ("NoChange", 255)],
    "PenaltyInfo": [("None", 0), ("Dt", 1), ("DtValid", 2), ("Sg", 3), ("SgValid", 4), ("Seconds30", 5), ("Seconds45", 6)],
    "PenaltyReason": [("Unknown", 0), ("Admin", 1), ("WrongWay", 2), ("FalseStart", 3), ("Speeding", 4),
                      ("StopShort", 5), ("StopLate", 6)],
    "PitLaneFact": [("Exit", 0), ("Enter", 1), ("NoPurpose", 2), ("Dt", 3), ("Sg", 4)],
    "FlgType": [("Blue", 1), ("Yellow", 2)],
    "BfnType": [("DelBtn", 0), ("Clear", 1), ("UserClear", 2), ("BtnRequest", 3)],
    "RipError": [("Ok", 0), ("Already", 1), ("Dedicated", 2), ("WrongMode", 3), ("NotReplay", 4), ("Corrupted", 5),
                 ("NotFound", 6), ("Unloadable", 7), ("DestOOB", 8), ("Unknown", 9), ("User", 10), ("OOS", 11)],
    "SshError": [("Ok", 0), ("Dedicated", 1), ("Corrupted", 2), ("NoSave", 3)],
    "Hlvc": [("Ground", 0), ("Wall", 1), ("Speeding", 4), ("OutOfBounds", 5)],
    "PmoAction": [("LoadingFile", 0), ("AddObjects", 1), ("DelObjects", 2), ("ClearAll", 3), ("TinyAxm", 4),
                  ("TtcSel", 5), ("Selection", 6), ("Position", 7), ("GetZ", 8)],
    "AcrResult": [("Processed", 1), ("Rejected", 2), ("UnknownCommand", 3)],
    "Language": [(n, i) for i, n in enumerate(
        ["English", "Deutsch", "Portuguese", "French", "Suomi", "Norsk", "Nederlands", "Catalan", "Turkish", "Castellano",
         "Italiano", "Dansk", "Czech", "Russian", "Estonian", "Serbian", "Greek", "Polski", "Croatian", "Hungarian",
         "Brazilian", "Swedish", "Slovak", "Galego", "Slovenski", "Belarussian", "Latvian", "Lithuanian",
         "TraditionalChinese", "SimplifiedChinese", "Japanese", "Korean", "Bulgarian", "Latino", "Ukrainian",
         "Indonesian", "Romanian"])],
    "License": [("Demo", 0), ("S1", 1), ("S2", 2), ("S3", 3)],
    "JrrAction": [("Reject", 0), ("Spawn", 1), ("Reset", 4), ("ResetNoRepair", 5)],
    "UcoAction": [("CircleEnter", 0), ("CircleLeave", 1), ("CpFwd", 2), ("CpRev", 3)],
    "OcoAction": [("LightsReset", 4), ("LightsSet", 5), ("LightsUnset", 6)],
    "OcoIndex": [("AxoStartLights1", 149), ("AxoStartLights2", 150), ("AxoStartLights3", 151), ("MainLights", 240)],
    "CscAction": [("Stop", 0), ("Start", 1)],
    "RelayErrorKind": [("None", 0), ("InvalidPacketLength", 1), ("InvalidPacketType", 2), ("InvalidHostname", 3),
                       ("BadAdminPassword", 4), ("BadSpectatorPassword", 5), ("MissingSpectatorPassword", 6)],
}

# (width in bytes, [(CONST, bit index)])
FLAGS = {
    "IsiFlags": (2, [("LOCAL", 2), ("MSO_COLS", 3), ("NLP", 4), ("MCI", 5), ("CON", 6), ("OBH", 7), ("HLV", 8),
                     ("AXM_LOAD", 9), ("AXM_EDIT", 10), ("REQ_JOIN", 11)]),
    "StaFlags": (2, [("GAME", 0), ("REPLAY", 1), ("PAUSE", 2), ("SHIFTU", 3), ("DIALOG", 4), ("SHIFTU_FOLLOW", 5),
                     ("SHIFTU_NO_OPT", 6), ("SHOW_2D", 7), ("FRONT_END", 8), ("MULTI", 9), ("MPSPEEDUP", 10),
                     ("WINDOWED", 11), ("SOUND_MUTE", 12), ("VIEW_OVERRIDE", 13), ("VISIBLE", 14), ("TEXT_ENTRY", 15)]),
    "SchFlags": (1, [("SHIFT", 0), ("CTRL", 1)]),
    "RaceFlags": (2, [("CAN_VOTE", 0), ("CAN_SELECT", 1), ("MID_RACE", 5), ("MUST_PIT", 6), ("CAN_RESET", 7), ("FCV", 8),
                      ("CRUISE", 9)]),
    "NcnFlags": (1, [("REMOTE", 2)]),
    "PlayerFlags": (2, [("LEFTSIDE", 0), ("AUTOGEARS", 3), ("SHIFTER", 4), ("HELP_B", 6), ("AXIS_CLUTCH", 7), ("INPITS", 8),
                        ("AUTOCLUTCH", 9), ("MOUSE", 10), ("KB_NO_HELP", 11), ("KB_STABILISED", 12), ("CUSTOM_VIEW", 13)]),
    "SetFlags": (1, [("SYMM_WHEELS", 0), ("TC_ENABLE", 1), ("ABS_ENABLE", 2)]),
    "PlayerType": (1, [("FEMALE", 0), ("AI", 1), ("REMOTE", 2)]),
    "Passengers": (1, [("FRONT_MALE", 0), ("FRONT_FEMALE", 1), ("REAR_LEFT_MALE", 2), ("REAR_LEFT_FEMALE", 3),
                       ("REAR_MIDDLE_MALE", 4), ("REAR_MIDDLE_FEMALE", 5), ("REAR_RIGHT_MALE", 6), ("REAR_RIGHT_FEMALE", 7)]),
    "RaceConfirmFlags": (1, [("MENTIONED", 0), ("CONFIRMED", 1), ("PENALTY_DT", 2), ("PENALTY_SG", 3), ("PENALTY_30", 4),
                             ("PENALTY_45", 5), ("DID_NOT_PIT", 6)]),
    "CompCarInfo": (1, [("BLUE", 0), ("YELLOW", 1), ("LAG", 5), ("FIRST", 6), ("LAST", 7)]),
    "BtnInst": (1, [("ALWAYSON", 7)]),
    "BtnStyleFlags": (1, [("C1", 0), ("C2", 1), ("C4", 2), ("CLICK", 3), ("LIGHT", 4), ("DARK", 5), ("LEFT", 6), ("RIGHT", 7)]),
    "BtnClickFlags": (1, [("LMB", 0), ("RMB", 1), ("CTRL", 2), ("SHIFT", 3)]),
    "RipOptions": (1, [("LOOP", 0), ("SKINS", 1), ("FULL_PHYS", 2)]),
    "ObhFlags": (1, [("LAYOUT", 0), ("CAN_MOVE", 1), ("WAS_MOVING", 2), ("ON_SPOT", 3)]),
    "PmoFlags": (1, [("FILE_END", 0), ("MOVE_MODIFY", 1), ("SELECTION_REAL", 2), ("AVOID_CHECK", 3)]),
    "OcoLights": (1, [("RED1", 0), ("RED2", 1), ("RED3", 2), ("GREEN", 3)]),
    "PlayerHandicapFlags": (1, [("MASS", 0), ("TRES", 1), ("SILENT", 7)]),
    "HostInfoFlags": (1, [("SPECTATE_PASSWORD_REQUIRED", 0), ("LICENSED", 1), ("S1", 2), ("S2", 3), ("FIRST", 6), ("LAST", 7)]),
    # PSE_ pit work bits: the numbering in InSim.txt could not be settled from memory (whether PSE_NOTHING occupies
    # bit 0): NOT part of the oracle - width only, bit positions taken from the source (DESIGN.md section 9).
    "PitStopWorkFlags": (4, None),
}

# built-in car wire names (three characters + NUL); PLC car bits (InSim.txt "cars" table: XF GTI = 1, XR GT = 2 ...)
VEHICLES = [("Xfg", "XFG"), ("Xrg", "XRG"), ("Xrt", "XRT"), ("Rb4", "RB4"), ("Fxo", "FXO"), ("Lx4", "LX4"), ("Lx6", "LX6"),
            ("Mrt", "MRT"), ("Uf1", "UF1"), ("Rac", "RAC"), ("Fz5", "FZ5"), ("Fox", "FOX"), ("Xfr", "XFR"), ("Ufr", "UFR"),
            ("Fo8", "FO8"), ("Fxr", "FXR"), ("Xrr", "XRR"), ("Fzr", "FZR"), ("Bf1", "BF1"), ("Fbm", "FBM")]
PLC_CAR_BITS = {v: i for i, (v, _) in enumerate(VEHICLES)}  # XF GTI bit 0 ... FBM bit 19

SUBS = {
    # struct NodeLap: Node(word) Lap(word) PLID Position
    "NodeLapInfo": [("u16", "node"), ("u16", "lap"), ("id", "plid", "PlayerId"), ("u8", "position")],
    # struct CompCar (28 bytes)
    "CompCar": [("u16", "node"), ("u16", "lap"), ("id", "plid", "PlayerId"), ("u8", "position"), ("flags", "info", "CompCarInfo"),
                ("z", 1), ("pt_i32", "xyz"), ("u16", "speed"), ("u16", "direction"), ("u16", "heading"), ("i16", "angvel")],
    # struct CarContOBJ (8 bytes)
    "CarContact": [("u8", "direction"), ("u8", "heading"), ("u8", "speed"), ("u8", "z"), ("i16", "x"), ("i16", "y")],
    # struct ObjectInfo (8 bytes)
    "ObjectInfo": [("i16", "x"), ("i16", "y"), ("u8", "z"), ("u8", "flags"), ("u8", "index"), ("u8", "heading")],
    # struct CarContact (16 bytes): ... ThrBrk (high nibble throttle, low brake) CluHan (high clutch, low handbrake)
    # GearSp (high 4 bits gear, low 4 bits spare)
    "ConInfo": [("id", "plid", "PlayerId"), ("flags", "info", "CompCarInfo"), ("z", 1), ("u8", "steer"),
                ("nibbles", "thr", "brk"), ("nibbles", "clu", "han"), ("nibbles", "gearsp", None),
                ("u8", "speed"), ("u8", "direction"), ("u8", "heading"), ("u8", "accelf"), ("u8", "accelr"),
                ("i16", "x"), ("i16", "y")],
    "HcpCarHandicap": [("u8le", "h_mass", 200), ("u8le", "h_tres", 50)],
    "PlayerHandicap": [("id", "plid", "PlayerId"), ("flags", "flags", "PlayerHandicapFlags"), ("u8le", "h_mass", 200), ("u8le", "h_tres", 50)],
    # struct HInfo (40 bytes)
    "HostInfo": [("str", "hname", 32), ("trk", "track"), ("flags", "flags", "HostInfoFlags"), ("u8", "numconns")],
}

R = ("id", "reqi", "RequestId")
Z1 = ("z", 1)

# (Packet variant, type number, payload struct, module path, fields from offset 2)
KINDS = [
    ("Isi", 1, "Isi", "insim", [R, Z1, ("u16", "udpport"), ("flags", "flags", "IsiFlags"), ("u8", "version"), ("char", "prefix"),
                                ("dur", "interval", "u16", 1), ("str", "admin", 16, "raw"), ("str", "iname", 16)]),
    ("Ver", 2, "Ver", "insim", [R, Z1, ("special", "version", "GameVersion8"), ("str", "product", 6), ("u8", "insimver"), Z1]),
    ("Tiny", 3, "Tiny", "insim", [R, ("enum", "subt", "TinyType")]),
    ("Small", 4, "Small", "insim", [R, ("special", "subt", "SmallType")]),
    ("Sta", 5, "Sta", "insim", [R, Z1, ("f32", "replayspeed"), ("flags", "flags", "StaFlags"), ("enum", "ingamecam", "CameraView"),
                                ("id", "viewplid", "PlayerId"), ("u8", "nump"), ("u8", "numconns"), ("u8", "numfinished"),
                                ("enum", "raceinprog", "RaceInProgress"), ("u8", "qualmins"), ("racelaps", "racelaps"), Z1,
                                ("u8", "serverstatus"), ("trk", "track"), ("u8", "weather"), ("enum", "wind", "Wind")]),
    ("Sch", 6, "Sch", "insim", [R, Z1, ("char", "charb"), ("flags", "flags", "SchFlags"), ("z", 2)]),
    ("Sfp", 7, "Sfp", "insim", [R, Z1, ("flags", "flag", "StaFlags"), ("bool", "onoff"), Z1]),
    ("Scc", 8, "Scc", "insim", [R, Z1, ("id", "viewplid", "PlayerId"), ("enum", "ingamecam", "CameraView"), ("z", 2)]),
    ("Cpp", 9, "Cpp", "insim", [R, Z1, ("pt_i32", "pos"), ("u16", "h"), ("u16", "p"), ("u16", "r"), ("id", "viewplid", "PlayerId"),
                                ("enum", "ingamecam", "CameraView"), ("f32", "fov"), ("dur", "time", "u16", 1), ("flags", "flags", "StaFlags")]),
    ("Ism", 10, "Ism", "insim", [R, Z1, ("bool", "host"), ("z", 3), ("str", "hname", 32)]),
    ("Mso", 11, "Mso", "insim", [R, Z1, ("id", "ucid", "ConnectionId"), ("id", "plid", "PlayerId"), ("enum", "usertype", "MsoUserType"),
                                 ("special", "textstart", "MsoTextStart"), ("strv", "msg", 128)]),
    ("Iii", 12, "Iii", "insim", [R, Z1, ("id", "ucid", "ConnectionId"), ("id", "plid", "PlayerId"), ("z", 2), ("strv", "msg", 64)]),
    ("Mst", 13, "Mst", "insim", [R, Z1, ("str", "msg", 64)]),
    ("Mtc", 14, "Mtc", "insim", [R, ("enum", "sound", "SoundType"), ("id", "ucid", "ConnectionId"), ("id", "plid", "PlayerId"), ("z", 2),
                                 ("strv", "text", 128)]),
    ("Mod", 15, "Mod", "insim", [R, Z1, ("i32", "bit16"), ("i32", "rr"), ("i32", "width"), ("i32", "height")]),
    ("Vtn", 16, "Vtn", "insim", [R, Z1, ("id", "ucid", "ConnectionId"), ("enum", "action", "VtnAction"), ("z", 2)]),
    ("Rst", 17, "Rst", "insim", [R, Z1, ("racelaps", "racelaps"), ("u8", "qualmins"), ("u8", "nump"), ("u8", "timing"), ("trk", "track"),
                                 ("u8", "weather"), ("enum", "wind", "Wind"), ("flags", "flags", "RaceFlags"), ("u16", "numnodes"),
                                 ("u16", "finish"), ("u16", "split1"), ("u16", "split2"), ("u16", "split3")]),
    ("Ncn", 18, "Ncn", "insim", [R, ("id", "ucid", "ConnectionId"), ("str", "uname", 24), ("str", "pname", 24), ("bool", "admin"),
                                 ("u8", "total"), ("flags", "flags", "NcnFlags"), Z1]),
    ("Cnl", 19, "Cnl", "insim", [R, ("id", "ucid", "ConnectionId"), ("enum", "reason", "CnlReason"), ("u8", "total"), ("z", 2)]),
    ("Cpr", 20, "Cpr", "insim", [R, ("id", "ucid", "ConnectionId"), ("str", "pname", 24), ("str", "plate", 8)]),
    ("Npl", 21, "Npl", "insim", [R, ("id", "plid", "PlayerId"), ("id", "ucid", "ConnectionId"), ("flags", "ptype", "PlayerType"),
                                 ("flags", "flags", "PlayerFlags"), ("str", "pname", 24), ("str", "plate", 8), ("veh", "cname"),
                                 ("str", "sname", 16), ("arr", "tyres", 4, ("enum", None, "TyreCompound")), ("u8", "h_mass"),
                                 ("u8", "h_tres"), ("u8", "model"), ("flags", "pass", "Passengers"), ("u8", "rwadj"), ("u8", "fwadj"),
                                 ("z", 2), ("flags", "setf", "SetFlags"), ("u8", "nump"), ("u8", "config"), ("fuel", "fuel", "Fuel")]),
    ("Plp", 22, "Plp", "insim", [R, ("id", "plid", "PlayerId")]),
    ("Pll", 23, "Pll", "insim", [R, ("id", "plid", "PlayerId")]),
    ("Lap", 24, "Lap", "insim", [R, ("id", "plid", "PlayerId"), ("dur", "ltime", "u32", 1), ("dur", "etime", "u32", 1), ("u16", "lapsdone"),
                                 ("flags", "flags", "PlayerFlags"), Z1, ("enum", "penalty", "PenaltyInfo"), ("u8", "numstops"),
                                 ("fuel", "fuel200", "Fuel200")]),
    ("Spx", 25, "Spx", "insim", [R, ("id", "plid", "PlayerId"), ("dur", "stime", "u32", 1), ("dur", "etime", "u32", 1), ("u8", "split"),
                                 ("enum", "penalty", "PenaltyInfo"), ("u8", "numstops"), ("fuel", "fuel200", "Fuel200")]),
    ("Pit", 26, "Pit", "insim", [R, ("id", "plid", "PlayerId"), ("u16", "lapsdone"), ("flags", "flags", "PlayerFlags"),
                                 ("fuel", "fueladd", "Fuel"), ("enum", "penalty", "PenaltyInfo"), ("u8", "numstops"), Z1,
                                 ("arr", "tyres", 4, ("enum", None, "TyreCompound")), ("flags", "work", "PitStopWorkFlags"), ("z", 4)]),
    ("Psf", 27, "Psf", "insim", [R, ("id", "plid", "PlayerId"), ("dur", "stime", "u32", 1), ("z", 4)]),
    ("Pla", 28, "Pla", "insim", [R, ("id", "plid", "PlayerId"), ("enum", "fact", "PitLaneFact"), ("z", 3)]),
    ("Cch", 29, "Cch", "insim", [R, ("id", "plid", "PlayerId"), ("enum", "camera", "CameraView"), ("z", 3)]),
    ("Pen", 30, "Pen", "insim", [R, ("id", "plid", "PlayerId"), ("enum", "oldpen", "PenaltyInfo"), ("enum", "newpen", "PenaltyInfo"),
                                 ("enum", "reason", "PenaltyReason"), Z1]),
    ("Toc", 31, "Toc", "insim", [R, ("id", "plid", "PlayerId"), ("id", "olducid", "ConnectionId"), ("id", "newucid", "ConnectionId"), ("z", 2)]),
    ("Flg", 32, "Flg", "insim", [R, ("id", "plid", "PlayerId"), ("bool", "offon"), ("enum", "flag", "FlgType"), ("id", "carbehind", "PlayerId"), Z1]),
    ("Pfl", 33, "Pfl", "insim", [R, ("id", "plid", "PlayerId"), ("flags", "flags", "PlayerFlags"), ("z", 2)]),
    ("Fin", 34, "Fin", "insim", [R, ("id", "plid", "PlayerId"), ("dur", "ttime", "u32", 1), ("dur", "btime", "u32", 1), Z1, ("u8", "numstops"),
                                 ("flags", "confirm", "RaceConfirmFlags"), Z1, ("u16", "lapsdone"), ("flags", "flags", "PlayerFlags")]),
    ("Res", 35, "Res", "insim", [R, ("id", "plid", "PlayerId"), ("str", "uname", 24), ("str", "pname", 24), ("str", "plate", 8), ("veh", "cname"),
                                 ("dur", "ttime", "u32", 1), ("dur", "btime", "u32", 1), Z1, ("u8", "numstops"),
                                 ("flags", "confirm", "RaceConfirmFlags"), Z1, ("u16", "lapsdone"), ("flags", "flags", "PlayerFlags"),
                                 ("u8", "resultnum"), ("u8", "numres"), ("u16", "pseconds")]),
    ("Reo", 36, "Reo", "insim", [R, ("u8", "nump"), ("arr", "plid", 40, ("id", None, "PlayerId"))]),
    ("Nlp", 37, "Nlp", "insim", [R, ("count", "info"), ("vec", "info", ("sub", None, "NodeLapInfo"), 6), ("align4",)]),
    ("Mci", 38, "Mci", "insim", [R, ("count", "info"), ("vec", "info", ("sub", None, "CompCar"), 28)]),
    ("Msx", 39, "Msx", "insim", [R, Z1, ("str", "msg", 96)]),
    ("Msl", 40, "Msl", "insim", [R, ("enum", "sound", "SoundType"), ("str", "msg", 128)]),
    ("Crs", 41, "Crs", "insim", [R, ("id", "plid", "PlayerId")]),
    ("Bfn", 42, "Bfn", "insim", [R, ("enum", "subt", "BfnType"), ("id", "ucid", "ConnectionId"), ("id", "clickid", "ClickId"),
                                 ("u8", "clickmax"), ("flags", "inst", "BtnInst")]),
    ("Axi", 43, "Axi", "insim", [R, Z1, ("u8", "axstart"), ("u8", "numcp"), ("u16", "numo"), ("str", "lname", 32)]),
    ("Axo", 44, "Axo", "insim", [R, ("id", "plid", "PlayerId")]),
    ("Btn", 45, "Btn", "insim", [R, ("id", "ucid", "ConnectionId"), ("id", "clickid", "ClickId"), ("flags", "inst", "BtnInst"),
                                 ("flags", "bstyle", "BtnStyleFlags"), ("u8", "typein"), ("u8", "l"), ("u8", "t"), ("u8", "w"), ("u8", "h"),
                                 ("strv", "text", 240)]),
    ("Btc", 46, "Btc", "insim", [R, ("id", "ucid", "ConnectionId"), ("id", "clickid", "ClickId"), ("flags", "inst", "BtnInst"),
                                 ("flags", "cflags", "BtnClickFlags"), Z1]),
    ("Btt", 47, "Btt", "insim", [R, ("id", "ucid", "ConnectionId"), ("id", "clickid", "ClickId"), ("flags", "inst", "BtnInst"),
                                 ("u8", "typein"), Z1, ("str", "text", 96)]),
    ("Rip", 48, "Rip", "insim", [R, ("enum", "error", "RipError"), ("bool", "mpr"), ("bool", "paused"), ("flags", "options", "RipOptions"), Z1,
                                 ("dur", "ctime", "u32", 1), ("dur", "ttime", "u32", 1), ("str", "rname", 64)]),
    ("Ssh", 49, "Ssh", "insim", [R, ("enum", "error", "SshError"), ("z", 4), ("str", "name", 32)]),
    ("Con", 50, "Con", "insim", [R, Z1, ("u16lt", "spclose", 4096), ("dur", "time", "u16", 10), ("sub", "a", "ConInfo"), ("sub", "b", "ConInfo")]),
    ("Obh", 51, "Obh", "insim", [R, ("id", "plid", "PlayerId"), ("u16lt", "spclose", 4096), ("dur", "time", "u16", 10), ("sub", "c", "CarContact"),
                                 ("i16", "x"), ("i16", "y"), ("u8", "zbyte"), Z1, ("u8", "index"), ("flags", "flags", "ObhFlags")]),
    ("Hlv", 52, "Hlv", "insim", [R, ("id", "plid", "PlayerId"), ("enum", "hlvc", "Hlvc"), Z1, ("dur", "time", "u16", 10), ("sub", "c", "CarContact")]),
    ("Plc", 53, "Plc", "insim", [R, Z1, ("id", "ucid", "ConnectionId"), ("z", 3), ("special", "cars", "PlcCars")]),
    ("Axm", 54, "Axm", "insim", [R, ("count", "info"), ("id", "ucid", "ConnectionId"), ("enum", "pmoaction", "PmoAction"),
                                 ("flags", "pmoflags", "PmoFlags"), Z1, ("vec", "info", ("sub", None, "ObjectInfo"), 8)]),
    ("Acr", 55, "Acr", "insim", [R, Z1, ("id", "ucid", "ConnectionId"), ("bool", "admin"), ("enum", "result", "AcrResult"), Z1, ("strv", "text", 64)]),
    ("Hcp", 56, "Hcp", "insim", [R, Z1, ("arr", "info", 32, ("sub", None, "HcpCarHandicap"))]),
    ("Nci", 57, "Nci", "insim", [R, ("id", "ucid", "ConnectionId"), ("enum", "language", "Language"), ("enum", "license", "License"), ("z", 2),
                                 ("u32", "userid"), ("special", "ipaddress", "Ipv4Unchecked")]),
    ("Jrr", 58, "Jrr", "insim", [R, ("id", "plid", "PlayerId"), ("id", "ucid", "ConnectionId"), ("enum", "jrraction", "JrrAction"), ("z", 2),
                                 ("sub", "startpos", "ObjectInfo")]),
    ("Uco", 59, "Uco", "insim", [R, ("id", "plid", "PlayerId"), Z1, ("enum", "ucoaction", "UcoAction"), ("z", 2), ("dur", "time", "u32", 1),
                                 ("sub", "c", "CarContact"), ("sub", "info", "ObjectInfo")]),
    ("Oco", 60, "Oco", "insim", [R, Z1, ("enum", "ocoaction", "OcoAction"), ("enum", "index", "OcoIndex"), ("u8", "identifier"),
                                 ("flags", "data", "OcoLights")]),
    ("Ttc", 61, "Ttc", "insim", [R, ("enum", "subt", "TtcType"), ("id", "ucid", "ConnectionId"), ("u8", "b1"), ("u8", "b2"), ("u8", "b3")]),
    ("Slc", 62, "Slc", "insim", [R, ("id", "ucid", "ConnectionId"), ("veh", "cname")]),
    ("Csc", 63, "Csc", "insim", [R, ("id", "plid", "PlayerId"), Z1, ("enum", "cscaction", "CscAction"), ("z", 2), ("dur", "time", "u32", 10),
                                 ("sub", "c", "CarContact")]),
    ("Cim", 64, "Cim", "insim", [R, ("id", "ucid", "ConnectionId"), ("special", "mode", "CimMode"), Z1]),
    ("Mal", 65, "Mal", "insim", [R, ("special", None, "MalBody")]),
    ("Plh", 66, "Plh", "insim", [R, ("count", "hcaps"), ("vec", "hcaps", ("sub", None, "PlayerHandicap"), 4)]),
    ("Ipb", 67, "Ipb", "insim", [R, ("special", None, "IpbBody")]),
    ("RelayArq", 250, "Arq", "relay", [R, Z1]),
    ("RelayArp", 251, "Arp", "relay", [R, ("bool", "admin")]),
    ("RelayHlr", 252, "Hlr", "relay", [R, Z1]),
    ("RelayHos", 253, "Hos", "relay", [R, ("count", "hinfo"), ("vec", "hinfo", ("sub", None, "HostInfo"), 40)]),
    ("RelaySel", 254, "Sel", "relay", [R, Z1, ("str", "hname", 32), ("str", "admin", 16), ("str", "spec", 16)]),
    ("RelayErr", 255, "Error", "relay", [R, ("enum", "err", "RelayErrorKind")]),
]

# time units that the specification leaves to prose are included above only where InSim.txt is explicit:
#   ISI Interval ms; CPP Time ms; LAP/SPX/PSF/FIN/RES/RIP/UCO ms; CON/OBH/HLV Time hundredths; CSC Time hundredths.
