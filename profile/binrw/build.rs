fn main() {
    println!("cargo:rustc-check-cfg=cfg(coverage)");
    println!("cargo:rustc-check-cfg=cfg(coverage_nightly)");
    println!("cargo:rustc-check-cfg=cfg(nightly)");
    if is_nightly().unwrap_or(false) {
        println!("cargo:rustc-cfg=nightly");
    }
}

fn is_nightly() -> Option<bool> {
    let rustc = std::env::var_os("RUSTC")?;
    let output = std::process::Command::new(rustc)
        .arg("--version")
        .output()
        .ok()?;
    let version = core::str::from_utf8(&output.stdout).ok()?;
    let nightly = version.contains("nightly") || version.contains("dev");

    Some(nightly)
}
