use crate::{
    io::{Read, Seek},
    BinRead, BinResult, Endian,
};
use core::fmt;

/// A wrapper that stores a value’s position alongside the value.
///
/// # Examples
///
/// ```
/// use binrw::{BinRead, PosValue, BinReaderExt, io::Cursor};
///
/// #[derive(BinRead)]
/// struct MyType {
///     a: u16,
///     b: PosValue<u8>
/// }
///
/// let val = Cursor::new(b"\xFF\xFE\xFD").read_be::<MyType>().unwrap();
/// assert_eq!(val.b.pos, 2);
/// assert_eq!(*val.b, 0xFD);
/// ```
pub struct PosValue<T> {
    /// The read value.
    pub val: T,

    /// The byte position of the start of the value.
    pub pos: u64,
}

impl<T: BinRead> BinRead for PosValue<T> {
    type Args<'a> = T::Args<'a>;

    fn read_options<R: Read + Seek>(
        reader: &mut R,
        endian: Endian,
        args: Self::Args<'_>,
    ) -> BinResult<Self> {
        let pos = reader.stream_position()?;

        Ok(PosValue {
            pos,
            val: T::read_options(reader, endian, args)?,
        })
    }
}

impl<T> core::ops::Deref for PosValue<T> {
    type Target = T;

    fn deref(&self) -> &T {
        &self.val
    }
}

impl<T> core::ops::DerefMut for PosValue<T> {
    fn deref_mut(&mut self) -> &mut T {
        &mut self.val
    }
}

impl<T: fmt::Debug> fmt::Debug for PosValue<T> {
    fn fmt(&self, f: &mut fmt::Formatter<'_>) -> fmt::Result {
        self.val.fmt(f)
    }
}

impl<T: Clone> Clone for PosValue<T> {
    fn clone(&self) -> Self {
        Self {
            val: self.val.clone(),
            pos: self.pos,
        }
    }
}

impl<U, T: PartialEq<U>> PartialEq<U> for PosValue<T> {
    fn eq(&self, other: &U) -> bool {
        self.val == *other
    }
}
