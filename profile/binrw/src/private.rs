use crate::{
    error::CustomError,
    io::{Read, Seek, SeekFrom, Write},
    BinRead, BinResult, BinWrite, Endian, Error,
};
#[cfg(not(feature = "std"))]
use alloc::{boxed::Box, string::String};

pub use crate::named_args::{
    builder_helper, passthrough_helper, Needed, Optional, Satisfied, SatisfiedOrOptional,
};

// This is some nonsense to improve the diagnostic output for types that require
// arguments so that the emitted output is clearer about this fact. Because this
// is implemented for any `Default`, and used as the constraint for shorthand
// functions, it should result in any invalid shorthand call to emit
// `Self::Args: Required` which is hopefully a clear enough hint.
pub trait Required: MissingArgsDirective {
    fn args() -> Self;
}

impl<T: Default> Required for T {
    fn args() -> Self {
        <Self as Default>::default()
    }
}

// This extra trait exists only to give a stronger hint in compiler errors about
// what to do. Without it, the compiler will point to the `Default` bound, which
// is misleading about what the programmer must do to fulfil the requirement of
// the type they are trying to use.
pub trait MissingArgsDirective {}
impl<T: Default> MissingArgsDirective for T {}

pub enum AssertErrorFn<M, E> {
    Message(M),
    Error(E),
}

pub fn assert<MsgFn, Msg, ErrorFn, Err>(
    test: bool,
    pos: u64,
    error_fn: AssertErrorFn<MsgFn, ErrorFn>,
) -> BinResult<()>
where
    MsgFn: Fn() -> Msg,
    Msg: Into<String> + Sized,
    ErrorFn: Fn() -> Err,
    Err: CustomError + 'static,
{
    if test {
        Ok(())
    } else {
        Err(match error_fn {
            AssertErrorFn::Message(error_fn) => Error::AssertFail {
                pos,
                message: error_fn().into(),
            },
            AssertErrorFn::Error(error_fn) => Error::Custom {
                pos,
                err: Box::new(error_fn()),
            },
        })
    }
}

// This validates the map function return value by trying to coerce it into
// a function with the expected return type. If this is not done, the
// compiler will emit the diagnostic on the `#[derive]`d attribute instead of
// the return statement of the map function. The simpler approach of assigning
// the map function to a variable with a function pointer type does not work for
// capturing closures since they are not compatible with that type.
pub fn coerce_fn<R, T, F>(f: F) -> F
where
    F: FnMut(T) -> R,
{
    f
}

pub fn magic<R, B>(reader: &mut R, expected: B, endian: Endian) -> BinResult<()>
where
    B: for<'a> BinRead<Args<'a> = ()>
        + core::fmt::Debug
        + PartialEq
        + Sync
        + Send
        + Clone
        + Copy
        + 'static,
    R: Read + Seek,
{
    let pos = reader.stream_position()?;
    let val = B::read_options(reader, endian, ())?;
    if val == expected {
        Ok(())
    } else {
        let _ = val;
        Err(Error::NoVariantMatch { pos })
    }
}

pub fn parse_fn_type_hint<Ret, ParseFn, R, Args>(f: ParseFn) -> ParseFn
where
    R: Read + Seek,
    ParseFn: FnOnce(&mut R, Endian, Args) -> BinResult<Ret>,
{
    f
}

pub fn parse_function_args_type_hint<R, Res, Args, F>(_: F, a: Args) -> Args
where
    R: Read + Seek,
    F: FnOnce(&mut R, Endian, Args) -> BinResult<Res>,
{
    a
}

pub fn write_function_args_type_hint<T, W, Args, F>(_: F, a: Args) -> Args
where
    W: Write + Seek,
    F: FnOnce(&T, &mut W, Endian, Args) -> BinResult<()>,
{
    a
}

pub fn map_args_type_hint<Input, Output, MapFn, Args>(_: &MapFn, args: Args) -> Args
where
    MapFn: FnOnce(Input) -> Output,
    Input: for<'a> BinRead<Args<'a> = Args>,
{
    args
}

pub fn map_reader_type_hint<'a, Reader, MapFn, Output>(x: MapFn) -> MapFn
where
    Reader: Read + Seek + 'a,
    MapFn: Fn(&'a mut Reader) -> Output,
    Output: Read + Seek + 'a,
{
    x
}

pub fn map_writer_type_hint<'a, Writer, MapFn, Output>(x: MapFn) -> MapFn
where
    Writer: Write + Seek + 'a,
    MapFn: Fn(&'a mut Writer) -> Output,
    Output: Write + Seek + 'a,
{
    x
}

pub fn write_fn_type_hint<T, WriterFn, Writer, Args>(x: WriterFn) -> WriterFn
where
    Writer: Write + Seek,
    WriterFn: FnOnce(&T, &mut Writer, Endian, Args) -> BinResult<()>,
{
    x
}

pub fn write_map_args_type_hint<Input, Output, MapFn, Args>(_: &MapFn, args: Args) -> Args
where
    MapFn: FnOnce(Input) -> Output,
    Output: for<'a> BinWrite<Args<'a> = Args>,
{
    args
}

pub fn restore_position<E: Into<Error>, S: Seek, T>(
    stream: &mut S,
    pos: u64,
) -> impl FnOnce(E) -> BinResult<T> + '_ {
    move |error| match stream.seek(SeekFrom::Start(pos)) {
        Ok(_) => Err(error.into()),
        Err(seek_error) => Err(restore_position_err(error.into(), seek_error.into())),
    }
}

fn restore_position_err(error: Error, seek_error: Error) -> Error {
    core::mem::forget(error);
    seek_error
}

pub fn restore_position_variant<S: Seek>(
    stream: &mut S,
    pos: u64,
    error: Error,
) -> BinResult<Error> {
    match stream.seek(SeekFrom::Start(pos)) {
        Ok(_) => Ok(error),
        Err(seek_error) => Err(restore_position_err(error, seek_error.into())),
    }
}

pub fn write_try_map_args_type_hint<Input, Output, Error, MapFn, Args>(
    _: &MapFn,
    args: Args,
) -> Args
where
    Error: CustomError,
    MapFn: FnOnce(Input) -> Result<Output, Error>,
    Output: for<'a> BinWrite<Args<'a> = Args>,
{
    args
}

pub fn write_map_fn_input_type_hint<Input, Output, MapFn>(func: MapFn) -> MapFn
where
    MapFn: FnOnce(Input) -> Output,
{
    func
}

pub fn write_fn_map_output_type_hint<Input, Output, MapFn, Writer, WriteFn, Args>(
    _: &MapFn,
    func: WriteFn,
) -> WriteFn
where
    MapFn: FnOnce(Input) -> Output,
    Args: Clone,
    Writer: Write + Seek,
    WriteFn: Fn(&Output, &mut Writer, Endian, Args) -> BinResult<()>,
{
    func
}

pub fn write_fn_try_map_output_type_hint<Input, Output, Error, MapFn, Writer, WriteFn, Args>(
    _: &MapFn,
    func: WriteFn,
) -> WriteFn
where
    Error: CustomError,
    MapFn: FnOnce(Input) -> Result<Output, Error>,
    Args: Clone,
    Writer: Write + Seek,
    WriteFn: Fn(&Output, &mut Writer, Endian, Args) -> BinResult<()>,
{
    func
}

pub fn write_zeroes<W: Write>(writer: &mut W, count: u64) -> BinResult<()> {
    const BUF_SIZE: u16 = 0x20;
    const ZEROES: [u8; BUF_SIZE as usize] = [0u8; BUF_SIZE as usize];

    if count <= BUF_SIZE.into() {
        // Lint: `count` is guaranteed to be <= BUF_SIZE
        #[allow(clippy::cast_possible_truncation)]
        writer.write_all(&ZEROES[..count as usize])?;
    } else {
        let full_chunks = count / u64::from(BUF_SIZE);
        let remaining = count % u64::from(BUF_SIZE);

        for _ in 0..full_chunks {
            writer.write_all(&ZEROES)?;
        }

        // Lint: `remaining` is guaranteed to be < BUF_SIZE
        #[allow(clippy::cast_possible_truncation)]
        writer.write_all(&ZEROES[..remaining as usize])?;
    }

    Ok(())
}

#[cfg(feature = "std")]
pub use std::eprintln;

#[cfg(not(feature = "std"))]
#[doc(hidden)]
#[macro_export]
macro_rules! eprintln {
    ($($tt:tt)*) => {
        compile_error!("dbg requires feature `std`")
    };
}

#[cfg(not(feature = "std"))]
pub use crate::eprintln;
