//! Type definitions for wrappers which parse interleaved data.

use crate::{BinRead, BinResult, VecArgs};
#[cfg(not(feature = "std"))]
use alloc::vec::Vec;
use core::fmt;

/// A parser for data which consists of values of type `T` interleaved with
/// other values of type `P`.
///
/// To use this parser, you must specify the parsing strategy by selecting
/// either [`separated()`] or [`separated_trailing()`] using [`parse_with`].
///
/// [`separated()`]: Self::separated
/// [`separated_trailing()`]: Self::separated_trailing
/// [`parse_with`]: crate::docs::attribute#custom-parserswriters
///
/// Consider using a `Vec<(T, P)>` or `(Vec<(T, P)>, Option<T>>)` instead if you
/// do not need the parsed data to be transformed into a structure of arrays.
///
/// # Examples
///
/// ```
/// # use binrw::{prelude::*, io::Cursor};
/// use binrw::punctuated::Punctuated;
///
/// #[derive(BinRead)]
/// struct MyList {
///     #[br(parse_with = Punctuated::separated)]
///     #[br(count = 3)]
///     x: Punctuated<u16, u8>,
/// }
///
/// # let mut x = Cursor::new(b"\0\x03\0\0\x02\x01\0\x01");
/// # let y: MyList = x.read_be().unwrap();
/// # assert_eq!(*y.x, vec![3, 2, 1]);
/// # assert_eq!(y.x.separators, vec![0, 1]);
/// ```
pub struct Punctuated<T: BinRead, P: BinRead> {
    /// The data values.
    data: Vec<T>,

    /// The separator values.
    pub separators: Vec<P>,
}

impl<T, P> Punctuated<T, P>
where
    T: BinRead,
    P: for<'a> BinRead<Args<'a> = ()>,
{
    /// Parses values of type `T` separated by values of type `P` without a
    /// trailing separator value.
    ///
    /// Requires a count to be passed via `#[br(count)]`.
    ///
    /// # Errors
    ///
    /// If reading fails, an [`Error`](crate::Error) variant will be returned.
    ///
    /// # Example
    ///
    /// ```
    /// # use binrw::{prelude::*, io::Cursor};
    /// use binrw::punctuated::Punctuated;
    ///
    /// #[derive(BinRead)]
    /// struct MyList {
    ///     #[br(parse_with = Punctuated::separated)]
    ///     #[br(count = 3)]
    ///     x: Punctuated<u16, u8>,
    /// }
    ///
    /// # let mut x = Cursor::new(b"\0\x03\0\0\x02\x01\0\x01");
    /// # let y: MyList = x.read_be().unwrap();
    /// # assert_eq!(*y.x, vec![3, 2, 1]);
    /// # assert_eq!(y.x.separators, vec![0, 1]);
    /// ```
    #[crate::parser(reader, endian)]
    pub fn separated<'a>(args: VecArgs<T::Args<'a>>, _: ...) -> BinResult<Self>
    where
        T::Args<'a>: Clone,
    {
        let mut data = Vec::with_capacity(args.count);
        let mut separators = Vec::with_capacity(args.count.max(1) - 1);

        for i in 0..args.count {
            data.push(T::read_options(reader, endian, args.inner.clone())?);
            if i + 1 != args.count {
                separators.push(P::read_options(reader, endian, ())?);
            }
        }

        Ok(Self { data, separators })
    }

    /// Parses values of type `T` interleaved with values of type `P`, including
    /// a trailing `P`.
    ///
    /// Requires a count to be passed via `#[br(count)]`.
    ///
    /// # Errors
    ///
    /// If reading fails, an [`Error`](crate::Error) variant will be returned.
    #[crate::parser(reader, endian)]
    pub fn separated_trailing<'a>(args: VecArgs<T::Args<'a>>, _: ...) -> BinResult<Self>
    where
        T::Args<'a>: Clone,
    {
        let mut data = Vec::with_capacity(args.count);
        let mut separators = Vec::with_capacity(args.count);

        for _ in 0..args.count {
            data.push(T::read_options(reader, endian, args.inner.clone())?);
            separators.push(P::read_options(reader, endian, ())?);
        }

        Ok(Self { data, separators })
    }

    /// Consumes this object, returning the data values while dropping the
    /// separator values.
    ///
    /// If you never use the separator values, consider using the [`pad_after`]
    /// directive to skip over data while parsing instead of reading it into
    /// memory and then discarding it.
    ///
    /// [`pad_after`]: crate::docs::attribute#padding-and-alignment
    #[must_use]
    pub fn into_values(self) -> Vec<T> {
        self.data
    }
}

impl<T: BinRead + fmt::Debug, P: BinRead> fmt::Debug for Punctuated<T, P> {
    fn fmt(&self, f: &mut fmt::Formatter<'_>) -> fmt::Result {
        self.data.fmt(f)
    }
}

impl<T: BinRead, P: BinRead> core::ops::Deref for Punctuated<T, P> {
    type Target = Vec<T>;

    fn deref(&self) -> &Self::Target {
        &self.data
    }
}

impl<T: BinRead, P: BinRead> core::ops::DerefMut for Punctuated<T, P> {
    fn deref_mut(&mut self) -> &mut Self::Target {
        &mut self.data
    }
}
