#![doc = include_str!("../doc/index.md")]
#![cfg_attr(not(feature = "std"), no_std)]
#![cfg_attr(coverage_nightly, feature(coverage_attribute))]
#![cfg_attr(all(doc, nightly), feature(doc_cfg))]
#![warn(clippy::pedantic)]
#![warn(missing_docs)]
#![warn(rust_2018_idioms)]
// Lint: This is not beneficial for code organisation.
#![allow(clippy::module_name_repetitions)]
#![allow(pub_use_of_private_extern_crate)]

extern crate alloc;
// This extern crate declaration is required to use binrw_derive macros like
// NamedArgs inside binrw because the generated code references a binrw crate,
// but binrw is not a dependency of binrw so no crate with that name gets
// automatically added by cargo to the extern prelude.
extern crate self as binrw;
#[cfg(all(doc, not(feature = "std")))]
extern crate std;

#[doc(hidden)]
#[path = "private.rs"]
pub mod __private;
mod binread;
mod binwrite;
pub mod docs;
pub mod endian;
pub mod error;
pub mod file_ptr;
pub mod helpers;
pub mod io;
pub mod meta;
mod named_args;
#[doc(hidden)]
pub mod pos_value;
pub mod punctuated;
#[doc(hidden)]
pub mod strings;

#[cfg(all(doc, not(feature = "std")))]
use alloc::vec::Vec;
#[doc(inline)]
pub use {
    binread::*,
    binwrite::*,
    endian::Endian,
    error::Error,
    file_ptr::{FilePtr, FilePtr128, FilePtr16, FilePtr32, FilePtr64, FilePtr8},
    named_args::NamedArgs,
    pos_value::PosValue,
    strings::{NullString, NullWideString},
};

/// Derive macro generating an impl of the trait [`BinRead`].
///
/// See the [directives glossary](docs::attribute) for usage details.
pub use binrw_derive::BinRead;

/// Attribute macro used to generate an impl of the trait [`BinRead`] with
/// support for [temporary variables](docs::attribute#temp).
///
/// When using temporary variables, this attribute **must** be placed above
/// other attributes that generate code (e.g. `#[derive(Debug)]`) to ensure that
/// the deleted temporary fields aren’t visible to those macros.
///
/// See the [directives glossary](docs::attribute) for usage details.
pub use binrw_derive::binread;

/// Derive macro generating an impl of the trait [`BinWrite`].
///
/// See the [directives glossary](docs::attribute) for usage details.
pub use binrw_derive::BinWrite;

/// Attribute macro used to generate an impl of the trait [`BinWrite`] with
/// support for [temporary variables](docs::attribute#temp).
///
/// When using temporary variables, this attribute **must** be placed above
/// other attributes that generate code (e.g. `#[derive(Debug)]`) to ensure that
/// the deleted temporary fields aren’t visible to those macros.
///
/// See the [directives glossary](docs::attribute) for usage details.
pub use binrw_derive::binwrite;

/// Attribute macro used to generate an impl of both [`BinRead`] and
/// [`BinWrite`] traits with support for
/// [temporary variables](docs::attribute#temp).
///
/// When using temporary variables, this attribute **must** be placed above
/// other attributes that generate code (e.g. `#[derive(Debug)]`) to ensure that
/// the deleted temporary fields aren’t visible to those macros.
///
/// See the [directives glossary](docs::attribute) for usage details.
pub use binrw_derive::binrw;

/// Derive macro generating an impl of the trait [`NamedArgs`].
///
/// The use cases for this macro are:
///
/// 1. When manually implementing [`BinRead`] or [`BinWrite`] on a type where
///    named arguments are desired.
/// 2. When creating a
///    [custom parser or writer](docs::attribute#custom-parserswriters)
///    where named arguments are desired.
/// 3. When a named arguments type should be shared by several different types
///    (e.g. by using [`import_raw`](docs::attribute#raw-arguments) on
///    derived types, and by assigning the type to [`BinRead::Args`] or
///    [`BinWrite::Args`] in manual implementations).
///
/// # Field options
///
/// * `#[named_args(default = $expr)]`: Sets the default value for a field.
///
/// # Examples
///
/// ```
/// use binrw::{args, binread, BinRead, NamedArgs};
/// #[derive(Clone, NamedArgs)]
/// struct GlobalArgs<Inner> {
///     #[named_args(default = 1)]
///     version: i16,
///     inner: Inner,
/// }
///
/// #[binread]
/// #[br(import_raw(args: GlobalArgs<T::Args<'_>>))]
/// struct Container<T>
/// where
///     T: BinRead + 'static,
///     for<'a> T::Args<'a>: Clone,
/// {
///     #[br(temp, if(args.version > 1, 16))]
///     count: u16,
///     #[br(args {
///         count: count.into(),
///         inner: args.inner
///     })]
///     items: Vec<T>,
/// }
///
/// # let mut input = binrw::io::Cursor::new(b"\x02\0\x42\0\x69\0");
/// # assert_eq!(
/// #     Container::<u16>::read_le_args(&mut input, args! { version: 2, inner: () }).unwrap().items,
/// #     vec![0x42, 0x69]
/// # );
/// ```
pub use binrw_derive::NamedArgs;

/// Attribute macro used to generate
/// [`parse_with`](docs::attribute#custom-parserswriters) functions.
///
/// Rust functions are transformed by this macro to match the binrw API.
///
/// # Attribute options
///
/// * `#[parser(reader)]` or `#[parser(reader: $ident)]`: Exposes the write
///   stream to the function. If no variable name is given, `reader` is used.
/// * `#[parser(endian)]` or `#[parser(endian: $ident)]`: Exposes the endianness
///   to the function. If no variable name is given, `endian` is used.
///
/// Options are comma-separated.
///
/// # Function parameters
///
/// Parameters are transformed into either
/// [tuple-style arguments](docs::attribute#tuple-style-arguments) or
/// [raw arguments](docs::attribute#raw-arguments) depending upon the function
/// signature.
///
/// ## Tuple-style arguments
///
/// Use a normal function signature. The parameters in the signature will be
/// converted to a tuple. For example:
///
/// ```
/// #[binrw::parser(reader: r, endian)]
/// fn custom_parser(v0: u8, v1: i16) -> binrw::BinResult<()> {
///     Ok(())
/// }
/// # custom_parser(&mut binrw::io::Cursor::new(b""), binrw::Endian::Little, (0, 0)).unwrap();
/// ```
///
/// The transformed output for this function is:
///
/// ```
/// use binrw::{BinResult, Endian, io::{Read, Seek}};
/// fn custom_parser<R: Read + Seek>(
///     r: &mut R,
///     endian: Endian,
///     (v0, v1): (u8, i16)
/// ) -> BinResult<()> {
///     Ok(())
/// }
/// # custom_parser(&mut binrw::io::Cursor::new(b""), binrw::Endian::Little, (0, 0)).unwrap();
/// ```
///
/// ## Raw arguments
///
/// Use a *variadic* function signature with a single parameter. The name and
/// type of the parameter will be used as the raw argument. For example:
///
/// ```
/// # struct ArgsType;
/// #[binrw::parser]
/// fn custom_parser(args: ArgsType, _: ...) -> binrw::BinResult<()> {
///     Ok(())
/// }
/// # custom_parser(&mut binrw::io::Cursor::new(b""), binrw::Endian::Little, ArgsType).unwrap();
/// ```
///
/// The transformed output for this function is:
///
/// ```
/// # struct ArgsType;
/// use binrw::{BinResult, Endian, io::{Read, Seek}};
/// fn custom_parser<R: Read + Seek>(
///     _: &mut R,
///     _: Endian,
///     args: ArgsType
/// ) -> BinResult<()> {
///     Ok(())
/// }
/// # custom_parser(&mut binrw::io::Cursor::new(b""), binrw::Endian::Little, ArgsType).unwrap();
/// ```
///
/// # Return value
///
/// The return value of a parser function must be [`BinResult<T>`](BinResult),
/// where `T` is the type of the object being parsed.
pub use binrw_derive::parser;

/// Attribute macro used to generate
/// [`write_with`](docs::attribute#custom-parserswriters) functions.
///
/// Rust functions are transformed by this macro to match the binrw API.
///
/// # Attribute options
///
/// * `#[writer(writer)]` or `#[writer(writer: $ident)]`: Exposes the write
///   stream to the function. If no variable name is given, `writer` is used.
/// * `#[writer(endian)]` or `#[writer(endian: $ident)]`: Exposes the endianness
///   to the function. If no variable name is given, `endian` is used.
///
/// Options are comma-separated.
///
/// # Function parameters
///
/// The first parameter is required and receives a reference to the object being
/// written.
///
/// Subsequent parameters are transformed into either
/// [tuple-style arguments](docs::attribute#tuple-style-arguments) or
/// [raw arguments](docs::attribute#raw-arguments) depending upon the function
/// signature.
///
/// ## Tuple-style arguments
///
/// Use a normal function signature. The remaining parameters in the signature
/// will be converted to a tuple. For example:
///
/// ```
/// # struct Object;
/// #[binrw::writer(writer: w, endian)]
/// fn custom_writer(obj: &Object, v0: u8, v1: i16) -> binrw::BinResult<()> {
///     Ok(())
/// }
/// # custom_writer(&Object, &mut binrw::io::Cursor::new(vec![]), binrw::Endian::Little, (0, 0)).unwrap();
/// ```
///
/// The transformed output for this function is:
///
/// ```
/// # struct Object;
/// use binrw::{BinResult, Endian, io::{Seek, Write}};
/// fn custom_writer<W: Write + Seek>(
///     obj: &Object,
///     w: &mut W,
///     endian: Endian,
///     (v0, v1): (u8, i16)
/// ) -> BinResult<()> {
///     Ok(())
/// }
/// # custom_writer(&Object, &mut binrw::io::Cursor::new(vec![]), binrw::Endian::Little, (0, 0)).unwrap();
/// ```
///
/// ## Raw arguments
///
/// Use a *variadic* function signature with a second parameter. The name and
/// type of the second parameter will be used as the raw argument. For example:
///
/// ```
/// # struct Object;
/// # struct ArgsType;
/// #[binrw::writer]
/// fn custom_writer(obj: &Object, args: ArgsType, _: ...) -> binrw::BinResult<()> {
///     Ok(())
/// }
/// # custom_writer(&Object, &mut binrw::io::Cursor::new(vec![]), binrw::Endian::Little, ArgsType).unwrap();
/// ```
///
/// The transformed output for this function is:
///
/// ```
/// # struct Object;
/// # struct ArgsType;
/// use binrw::{BinResult, Endian, io::{Seek, Write}};
/// fn custom_writer<W: Write + Seek>(
///     obj: &Object,
///     _: &mut W,
///     _: Endian,
///     args: ArgsType
/// ) -> BinResult<()> {
///     Ok(())
/// }
/// # custom_writer(&Object, &mut binrw::io::Cursor::new(vec![]), binrw::Endian::Little, ArgsType).unwrap();
/// ```
///
/// # Return value
///
/// The return value of a writer function must be [`BinResult<()>`](BinResult).
pub use binrw_derive::writer;

/// A specialized [`Result`] type for binrw operations.
pub type BinResult<T> = core::result::Result<T, Error>;

pub mod prelude {
    //! The binrw prelude.
    //!
    //! A collection of traits and types you’ll likely need when working with
    //! binrw and are unlikely to cause name conflicts.
    //!
    //! ```
    //! # #![allow(unused_imports)]
    //! use binrw::prelude::*;
    //! ```

    pub use crate::{
        binread, binrw, binwrite, BinRead, BinReaderExt, BinResult, BinWrite, BinWriterExt,
    };
}
