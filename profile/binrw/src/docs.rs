//! Additional long-form documentation and reference material.

#[doc = include_str!("../doc/attribute.md")]
pub mod attribute {}
#[doc = include_str!("../doc/performance.md")]
pub mod performance {}

#[cfg(all(doc, not(feature = "std")))]
use alloc::vec::Vec;
