//! Type definitions and helpers for handling indirection within a file.
//!
//! # Best practices
//!
//! Indirections that are not collections (e.g. a single offset to a global file
//! header) can use `FilePtr` to immediately read the offset and then parse the
//! pointed-to value. However, using `FilePtr` inside a collection is
//! inefficient because it seeks to and reads each pointed-to value immediately
//! after the offset is read. In these cases, it is faster to read the offset
//! table into a collection (e.g. `Vec<u32>`) and then either pass it to
//! [`parse_from_iter`] or write a function that is called to lazily load values
//! as needed.
//!
//! ## Using `parse_from_iter` to read an offset table
//!
//! ### With relative offsets
//!
//! In this example, the offsets in the offset table start counting from the
//! beginning of the values section, and are in a random order.
//!
//! Since the values section exists immediately after the offset table, no
//! seeking is required before reading the values.
//!
//! Since the offsets are in a random order, the position of the stream must be
//! returned to a known state using `restore_position` on the values field.
//! Then, `seek_before` is used on the next field to skip past the values data
//! and continue reading the rest of the object.
//!
//! ```
//! # use binrw::{args, BinRead, BinReaderExt, io::{Cursor, SeekFrom}};
//! use binrw::file_ptr::parse_from_iter;
//!
//! #[derive(BinRead)]
//! #[br(big)]
//! struct Object {
//!     count: u16,
//!     #[br(args { count: count.into() })]
//!     offsets: Vec<u16>,
//!     #[br(parse_with = parse_from_iter(offsets.iter().copied()), restore_position)]
//!     values: Vec<u8>,
//!     #[br(seek_before(SeekFrom::Current(count.into())))]
//!     extra: u16,
//! }
//!
//! # let mut x = Cursor::new(b"\0\x02\0\x01\0\0\x03\x04\xff\xff");
//! # let x = Object::read(&mut x).unwrap();
//! # assert_eq!(x.values, &[4, 3]);
//! # assert_eq!(x.extra, 0xffff);
//! ```
//!
//! ### With absolute offsets
//!
//! In this example, the offsets in the offset table start from the beginning of
//! the file, and are in sequential order.
//!
//! Since the offsets start from the beginning of the file, it is necessary to
//! use `seek_before` to reposition the stream to the beginning of the file
//! before reading the values.
//!
//! Since the offsets are in order, no seeking is required after the values are
//! read, since the stream will already be pointed at the end of the values
//! section.
//!
//! ```
//! # use binrw::{args, BinRead, BinReaderExt, io::{Cursor, SeekFrom}};
//! use binrw::file_ptr::parse_from_iter;
//!
//! #[derive(BinRead)]
//! #[br(big)]
//! struct Object {
//!     count: u16,
//!     #[br(args { count: count.into() })]
//!     offsets: Vec<u16>,
//!     #[br(
//!         parse_with = parse_from_iter(offsets.iter().copied()),
//!         seek_before(SeekFrom::Start(0))
//!     )]
//!     values: Vec<u8>,
//!     extra: u16,
//! }
//!
//! # let mut x = Cursor::new(b"\0\x02\0\x06\0\x07\x04\x03\xff\xff");
//! # let x = Object::read(&mut x).unwrap();
//! # assert_eq!(x.values, &[4, 3]);
//! # assert_eq!(x.extra, 0xffff);
//! ```
//!
//! ## Using a function to lazily load values
//!
//! In this example, only the offset table is parsed. Values pointed to by the
//! offset table are loaded on demand by calling `Object::get` as needed at
//! runtime.
//!
//! ```
//! # use binrw::{args, BinRead, BinResult, BinReaderExt, helpers::until_eof, io::{Cursor, Read, Seek, SeekFrom}};
//!
//! #[derive(BinRead)]
//! # #[derive(Debug, Eq, PartialEq)]
//! #[br(big)]
//! struct Item(u8);
//!
//! #[derive(BinRead)]
//! #[br(big, stream = s)]
//! struct Object {
//!     count: u16,
//!     #[br(args { count: count.into() })]
//!     offsets: Vec<u16>,
//!     #[br(try_calc = s.stream_position())]
//!     data_offset: u64,
//! }
//!
//! impl Object {
//!     pub fn get<R: Read + Seek>(&self, source: &mut R, index: usize) -> Option<BinResult<Item>> {
//!         self.offsets.get(index).map(|offset| {
//!             let offset = self.data_offset + u64::from(*offset);
//!             source.seek(SeekFrom::Start(offset))?;
//!             Item::read(source)
//!         })
//!     }
//! }
//!
//! # let mut s = Cursor::new(b"\0\x02\0\x01\0\0\x03\x04");
//! # let x = Object::read(&mut s).unwrap();
//! # assert!(matches!(x.get(&mut s, 0), Some(Ok(Item(4)))));
//! # assert!(matches!(x.get(&mut s, 1), Some(Ok(Item(3)))));
//! # assert!(matches!(x.get(&mut s, 2), None));
//! ```

use crate::NamedArgs;
use crate::{
    io::{Read, Seek, SeekFrom},
    BinRead, BinResult, Endian,
};
use core::num::{
    NonZeroI128, NonZeroI16, NonZeroI32, NonZeroI64, NonZeroI8, NonZeroU128, NonZeroU16,
    NonZeroU32, NonZeroU64, NonZeroU8,
};
use core::ops::{Deref, DerefMut};

/// A type alias for [`FilePtr`] with 8-bit offsets.
pub type FilePtr8<T> = FilePtr<u8, T>;
/// A type alias for [`FilePtr`] with 16-bit offsets.
pub type FilePtr16<T> = FilePtr<u16, T>;
/// A type alias for [`FilePtr`] with 32-bit offsets.
pub type FilePtr32<T> = FilePtr<u32, T>;
/// A type alias for [`FilePtr`] with 64-bit offsets.
pub type FilePtr64<T> = FilePtr<u64, T>;
/// A type alias for [`FilePtr`] with 128-bit offsets.
pub type FilePtr128<T> = FilePtr<u128, T>;

/// A type alias for [`FilePtr`] with non-zero 8-bit offsets.
pub type NonZeroFilePtr8<T> = FilePtr<NonZeroU8, T>;
/// A type alias for [`FilePtr`] with non-zero 16-bit offsets.
pub type NonZeroFilePtr16<T> = FilePtr<NonZeroU16, T>;
/// A type alias for [`FilePtr`] with non-zero 32-bit offsets.
pub type NonZeroFilePtr32<T> = FilePtr<NonZeroU32, T>;
/// A type alias for [`FilePtr`] with non-zero 64-bit offsets.
pub type NonZeroFilePtr64<T> = FilePtr<NonZeroU64, T>;
/// A type alias for [`FilePtr`] with non-zero 128-bit offsets.
pub type NonZeroFilePtr128<T> = FilePtr<NonZeroU128, T>;

/// A wrapper type which represents a layer of indirection within a file.
///
/// The pointer type `Ptr` is an offset to a value within the data stream, and
/// the value type `T` is the value at that offset. [Dereferencing] a `FilePtr`
/// yields the pointed-to value. When deriving `BinRead`, the
/// [offset](crate::docs::attribute#offset) directive can be used to adjust the
/// offset before the pointed-to value is read.
///
/// `FilePtr` is not efficient when reading offset tables; see the
/// [module documentation](binrw::file_ptr) for more information.
///
/// [Dereferencing]: core::ops::Deref
///
/// # Examples
///
/// ```
/// # use binrw::{prelude::*, io::Cursor, FilePtr};
/// #
/// #[derive(BinRead)]
/// struct Test {
///     indirect_value: FilePtr<u32, u8>
/// }
///
/// let test: Test = Cursor::new(b"\0\0\0\x08\0\0\0\0\xff").read_be().unwrap();
/// assert_eq!(test.indirect_value.ptr, 8);
/// assert_eq!(*test.indirect_value, 0xFF);
/// ```
///
/// Example data mapped out:
///
/// ```hex
///           [pointer]           [value]
/// 00000000: 0000 0008 0000 0000 ff                   ............
/// ```
#[derive(Debug, Eq)]
pub struct FilePtr<Ptr: IntoSeekFrom, T> {
    /// The raw offset to the value.
    pub ptr: Ptr,

    /// The pointed-to value.
    pub value: T,
}

impl<Ptr, Value> BinRead for FilePtr<Ptr, Value>
where
    Ptr: for<'a> BinRead<Args<'a> = ()> + IntoSeekFrom,
    Value: BinRead,
{
    type Args<'a> = FilePtrArgs<Value::Args<'a>>;

    fn read_options<R: Read + Seek>(
        reader: &mut R,
        endian: Endian,
        args: Self::Args<'_>,
    ) -> BinResult<Self> {
        let ptr = Ptr::read_options(reader, endian, ())?;
        let value = Self::read_value(ptr, Value::read_options, reader, endian, args)?;
        Ok(FilePtr { ptr, value })
    }
}

impl<Ptr, Value> FilePtr<Ptr, Value>
where
    Ptr: IntoSeekFrom,
{
    /// Reads an offset, then seeks to and parses the pointed-to value using the
    /// [`BinRead`] implementation for `Value`. Returns the pointed-to value.
    ///
    /// # Errors
    ///
    /// If reading fails, an [`Error`](crate::Error) variant will be returned.
    #[binrw::parser(reader, endian)]
    pub fn parse<Args>(args: FilePtrArgs<Args>, _: ...) -> BinResult<Value>
    where
        Ptr: for<'a> BinRead<Args<'a> = ()> + IntoSeekFrom,
        Value: for<'a> BinRead<Args<'a> = Args>,
    {
        Self::read_options(reader, endian, args).map(Self::into_inner)
    }

    /// Creates a parser that reads an offset, then seeks to and parses the
    /// pointed-to value using the given `parser` function. Returns the
    /// pointed-to value.
    ///
    /// # Errors
    ///
    /// If reading fails, an [`Error`](crate::Error) variant will be returned.
    ///
    /// # Examples
    ///
    /// ```
    /// # use binrw::{helpers::read_u24, prelude::*};
    /// use binrw::FilePtr16;
    ///
    /// #[derive(BinRead)]
    /// struct Test {
    ///     #[br(parse_with = FilePtr16::parse_with(read_u24))]
    ///     value: u32
    /// }
    ///
    /// let mut data = binrw::io::Cursor::new(b"\x02\x00\x07\x0f\x10");
    /// let result = Test::read_le(&mut data).unwrap();
    /// assert_eq!(result.value, 0x100f07);
    /// ```
    pub fn parse_with<R, F, Args>(
        parser: F,
    ) -> impl Fn(&mut R, Endian, FilePtrArgs<Args>) -> BinResult<Value>
    where
        R: Read + Seek,
        F: Fn(&mut R, Endian, Args) -> BinResult<Value>,
        Ptr: for<'a> BinRead<Args<'a> = ()> + IntoSeekFrom,
    {
        let parser = Self::with(parser);
        move |reader, endian, args| parser(reader, endian, args).map(Self::into_inner)
    }

    /// Creates a parser that reads an offset, then seeks to and parses the
    /// pointed-to value using the given `parser` function. Returns a
    /// [`FilePtr`] containing the offset and value.
    ///
    /// # Errors
    ///
    /// If reading fails, an [`Error`](crate::Error) variant will be returned.
    ///
    /// # Examples
    ///
    /// ```
    /// # use binrw::{helpers::read_u24, prelude::*};
    /// use binrw::FilePtr16;
    ///
    /// #[derive(BinRead)]
    /// struct Test {
    ///     #[br(parse_with = FilePtr16::with(read_u24))]
    ///     value: FilePtr16<u32>
    /// }
    ///
    /// let mut data = binrw::io::Cursor::new(b"\x02\x00\x07\x0f\x10");
    /// let result = Test::read_le(&mut data).unwrap();
    /// assert_eq!(result.value.ptr, 2);
    /// assert_eq!(result.value.value, 0x100f07);
    /// ```
    pub fn with<R, F, Args>(
        parser: F,
    ) -> impl Fn(&mut R, Endian, FilePtrArgs<Args>) -> BinResult<Self>
    where
        R: Read + Seek,
        F: Fn(&mut R, Endian, Args) -> BinResult<Value>,
        Ptr: for<'a> BinRead<Args<'a> = ()> + IntoSeekFrom,
    {
        move |reader, endian, args| {
            let ptr = Ptr::read_options(reader, endian, ())?;
            let value = Self::read_value(ptr, &parser, reader, endian, args)?;
            Ok(Self { ptr, value })
        }
    }

    /// Consumes this object, returning the pointed-to value.
    pub fn into_inner(self) -> Value {
        self.value
    }

    fn read_value<R, Parser, Args>(
        ptr: Ptr,
        parser: Parser,
        reader: &mut R,
        endian: Endian,
        args: FilePtrArgs<Args>,
    ) -> BinResult<Value>
    where
        R: Read + Seek,
        Parser: FnOnce(&mut R, Endian, Args) -> BinResult<Value>,
    {
        let relative_to = args.offset;
        let before = reader.stream_position()?;
        reader.seek(SeekFrom::Start(relative_to))?;
        reader.seek(ptr.into_seek_from())?;
        let value = parser(reader, endian, args.inner);
        reader.seek(SeekFrom::Start(before))?;
        value
    }
}

impl<Ptr, Value> Deref for FilePtr<Ptr, Value>
where
    Ptr: IntoSeekFrom,
{
    type Target = Value;

    /// Dereferences the value stored by `FilePtr`.
    ///
    /// # Examples
    ///
    /// ```
    /// # use binrw::{prelude::*};
    /// use binrw::FilePtr16;
    ///
    /// #[derive(BinRead)]
    /// struct Test {
    ///     value: FilePtr16<u16>
    /// }
    ///
    /// let mut data = binrw::io::Cursor::new(b"\x02\x00\x01\x00");
    /// let result = Test::read_le(&mut data).unwrap();
    /// assert_eq!(result.value.ptr, 2);
    /// assert_eq!(result.value.value, 1);
    /// assert_eq!(*result.value, 1);
    /// ```
    fn deref(&self) -> &Self::Target {
        &self.value
    }
}

impl<Ptr, Value> DerefMut for FilePtr<Ptr, Value>
where
    Ptr: IntoSeekFrom,
{
    /// Mutably dereferences the value stored by `FilePtr`.
    ///
    /// # Examples
    ///
    /// ```
    /// # use binrw::{prelude::*};
    /// use binrw::FilePtr16;
    ///
    /// #[derive(BinRead)]
    /// struct Test {
    ///     value: FilePtr16<u16>
    /// }
    ///
    /// let mut data = binrw::io::Cursor::new(b"\x02\x00\x01\x00");
    /// let mut result = Test::read_le(&mut data).unwrap();
    /// assert_eq!(result.value.ptr, 2);
    /// assert_eq!(result.value.value, 1);
    /// *result.value = 42;
    /// assert_eq!(result.value.value, 42);
    /// ```
    fn deref_mut(&mut self) -> &mut Value {
        &mut self.value
    }
}

impl<Ptr, Value> PartialEq<FilePtr<Ptr, Value>> for FilePtr<Ptr, Value>
where
    Ptr: IntoSeekFrom,
    Value: PartialEq,
{
    fn eq(&self, other: &Self) -> bool {
        self.value == other.value
    }
}

/// Creates a parser that reads a collection of values from an iterator of
/// file offsets using the [`BinRead`] implementation of `Value`.
///
/// Offsets are treated as relative to the position of the reader when
/// parsing begins. Use the [`seek_before`] directive to reposition the
/// stream in this case.
///
/// See the [module documentation](binrw::file_ptr) for more information on how
/// use `parse_from_iter`.
///
/// [`seek_before`]: crate::docs::attribute#padding-and-alignment
///
/// # Examples
///
/// ```
/// # use binrw::{args, BinRead, BinReaderExt, io::Cursor};
/// #[derive(BinRead)]
/// #[br(big)]
/// struct Header {
///     count: u16,
///
///     #[br(args { count: count.into() })]
///     offsets: Vec<u16>,
/// }
///
/// #[derive(BinRead)]
/// #[br(big)]
/// struct Object {
///     header: Header,
///     #[br(parse_with = binrw::file_ptr::parse_from_iter(header.offsets.iter().copied()))]
///     values: Vec<u8>,
/// }
///
/// # let mut x = Cursor::new(b"\0\x02\0\x01\0\0\x03\x04");
/// # let x = Object::read(&mut x).unwrap();
/// # assert_eq!(x.values, &[4, 3]);
/// ```
pub fn parse_from_iter<Ptr, Value, Ret, Args, It, Reader>(
    it: It,
) -> impl FnOnce(&mut Reader, Endian, Args) -> BinResult<Ret>
where
    Ptr: IntoSeekFrom,
    Value: for<'a> BinRead<Args<'a> = Args>,
    Ret: FromIterator<Value>,
    Args: Clone,
    It: IntoIterator<Item = Ptr>,
    Reader: Read + Seek,
{
    parse_from_iter_with(it, Value::read_options)
}

/// Creates a parser that reads a collection of values from an iterator of
/// file offsets using the given `parser` function.
///
/// Offsets are treated as relative to the position of the reader when
/// parsing begins. Use the [`seek_before`] directive to reposition the
/// stream in this case.
///
/// See the [module documentation](binrw::file_ptr) for more information on how
/// to use `parse_from_iter_with`.
///
/// [`seek_before`]: crate::docs::attribute#padding-and-alignment
///
/// # Examples
///
/// ```
/// # use binrw::{args, BinRead, BinReaderExt, io::Cursor};
/// #[derive(BinRead)]
/// #[br(big)]
/// struct Header {
///     count: u16,
///
///     #[br(args { count: count.into() })]
///     offsets: Vec<u16>,
/// }
///
/// # #[derive(Debug, Eq, PartialEq)]
/// struct Item(u8);
///
/// #[derive(BinRead)]
/// #[br(big)]
/// struct Object {
///     header: Header,
///     #[br(parse_with = binrw::file_ptr::parse_from_iter_with(header.offsets.iter().copied(), |reader, endian, args| {
///        u8::read_options(reader, endian, args).map(Item)
///     }))]
///     values: Vec<Item>,
/// }
///
/// # let mut x = Cursor::new(b"\0\x02\0\x01\0\0\x03\x04");
/// # let x = Object::read(&mut x).unwrap();
/// # assert_eq!(x.values, &[Item(4), Item(3)]);
/// ```
pub fn parse_from_iter_with<Ptr, Value, Ret, Args, It, F, Reader>(
    it: It,
    parser: F,
) -> impl FnOnce(&mut Reader, Endian, Args) -> BinResult<Ret>
where
    Ptr: IntoSeekFrom,
    Ret: FromIterator<Value>,
    Args: Clone,
    It: IntoIterator<Item = Ptr>,
    F: Fn(&mut Reader, Endian, Args) -> BinResult<Value>,
    Reader: Read + Seek,
{
    move |reader, endian, args| {
        let base_pos = reader.stream_position()?;
        it.into_iter()
            .map(move |ptr| {
                // Avoid unnecessary seeks:
                // 1. Unnecessary seeking backwards to the base position
                //    will cause forward-only readers to fail always even if
                //    the offsets are ordered;
                // 2. Seeks that change the position when it does not need
                //    to change may unnecessarily flush a buffered reader
                //    cache.
                match ptr.into_seek_from() {
                    seek @ SeekFrom::Current(offset) => {
                        if let Some(new_pos) = base_pos.checked_add_signed(offset) {
                            if new_pos != reader.stream_position()? {
                                reader.seek(SeekFrom::Start(new_pos))?;
                            }
                        } else {
                            reader.seek(seek)?;
                        }
                    }
                    seek => {
                        reader.seek(seek)?;
                    }
                }

                parser(reader, endian, args.clone())
            })
            .collect()
    }
}

/// A trait to convert from an integer into [`SeekFrom::Current`].
pub trait IntoSeekFrom: Copy {
    /// Converts the value.
    fn into_seek_from(self) -> SeekFrom;
}

macro_rules! impl_into_seek_from {
    ($($t:ty),*) => {
        $(
            impl IntoSeekFrom for $t {
                fn into_seek_from(self) -> SeekFrom {
                    SeekFrom::Current(TryInto::try_into(self).unwrap())
                }
            }
        )*
    };
}

impl_into_seek_from!(i8, i16, i32, i64, i128, u8, u16, u32, u64, u128);

macro_rules! impl_into_seek_from_for_non_zero {
    ($($t:ty),*) => {
        $(
            impl IntoSeekFrom for $t {
                fn into_seek_from(self) -> SeekFrom {
                    self.get().into_seek_from()
                }
            }
        )*
    };
}

impl_into_seek_from_for_non_zero!(
    NonZeroI128,
    NonZeroI16,
    NonZeroI32,
    NonZeroI64,
    NonZeroI8,
    NonZeroU128,
    NonZeroU16,
    NonZeroU32,
    NonZeroU64,
    NonZeroU8
);

/// Named arguments for the [`BinRead::read_options()`] implementation of [`FilePtr`].
///
/// The `inner` field can be omitted completely if the inner type doesn’t
/// require arguments, in which case a default value will be used.
#[derive(Clone, Default, NamedArgs)]
pub struct FilePtrArgs<Inner> {
    /// An absolute offset added to the [`FilePtr::ptr`](crate::FilePtr::ptr)
    /// offset before reading the pointed-to value.
    #[named_args(default = 0)]
    pub offset: u64,

    /// The [arguments](crate::BinRead::Args) for the inner type.
    #[named_args(try_optional)]
    pub inner: Inner,
}
