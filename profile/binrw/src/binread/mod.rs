mod impls;

use crate::{
    io::{Read, Seek},
    BinResult, Endian,
    __private::Required,
    meta::ReadEndian,
};
pub use impls::VecArgs;

/// The `BinRead` trait reads data from streams and converts it into objects.
///
/// This trait is usually derived, but can also be manually implemented by
/// writing an appropriate [`Args`] type and [`read_options()`] function.
///
/// [`Args`]: Self::Args
/// [`read_options()`]: Self::read_options
///
/// # Derivable
///
/// This trait can be used with `#[derive]` or `#[binread]`. Each field of a
/// derived type must either implement `BinRead` or be annotated with an
/// attribute containing a [`map`], [`try_map`], or [`parse_with`] directive.
///
/// [`map`]: crate::docs::attribute#map
/// [`parse_with`]: crate::docs::attribute#custom-parserswriters
/// [`try_map`]: crate::docs::attribute#map
///
/// Using `#[binread]` instead of `#[derive]` is required when using
/// [temporary fields].
///
/// [temporary fields]: crate::docs::attribute#temp
pub trait BinRead: Sized {
    /// The type used for the `args` parameter of [`read_args()`] and
    /// [`read_options()`].
    ///
    /// When the given type implements [`Default`], convenience functions like
    /// [`read()`] are enabled. `BinRead` implementations that don’t receive any
    /// arguments should use the `()` type.
    ///
    /// When `BinRead` is derived, the [`import`] and [`import_tuple`]
    /// directives define this type.
    ///
    /// [`import`]: crate::docs::attribute#arguments
    /// [`import_tuple`]: crate::docs::attribute#arguments
    /// [`read()`]: Self::read
    /// [`read_args()`]: Self::read_args
    /// [`read_options()`]: Self::read_options
    type Args<'a>;

    /// Read `Self` from the reader using default arguments.
    ///
    /// # Errors
    ///
    /// If reading fails, an [`Error`](crate::Error) variant will be returned.
    #[inline]
    fn read<R: Read + Seek>(reader: &mut R) -> BinResult<Self>
    where
        Self: ReadEndian,
        for<'a> Self::Args<'a>: Required,
    {
        Self::read_args(reader, Self::Args::args())
    }

    /// Read `Self` from the reader using default arguments and assuming
    /// big-endian byte order.
    ///
    /// # Errors
    ///
    /// If reading fails, an [`Error`](crate::Error) variant will be returned.
    #[inline]
    fn read_be<R: Read + Seek>(reader: &mut R) -> BinResult<Self>
    where
        for<'a> Self::Args<'a>: Required,
    {
        Self::read_be_args(reader, Self::Args::args())
    }

    /// Read `Self` from the reader using default arguments and assuming
    /// little-endian byte order.
    ///
    /// # Errors
    ///
    /// If reading fails, an [`Error`](crate::Error) variant will be returned.
    #[inline]
    fn read_le<R: Read + Seek>(reader: &mut R) -> BinResult<Self>
    where
        for<'a> Self::Args<'a>: Required,
    {
        Self::read_le_args(reader, Self::Args::args())
    }

    /// Read `T` from the reader assuming native-endian byte order.
    ///
    /// # Errors
    ///
    /// If reading fails, an [`Error`](crate::Error) variant will be returned.
    #[inline]
    fn read_ne<R: Read + Seek>(reader: &mut R) -> BinResult<Self>
    where
        for<'a> Self::Args<'a>: Required,
    {
        Self::read_ne_args(reader, Self::Args::args())
    }

    /// Read `Self` from the reader using the given arguments.
    ///
    /// # Errors
    ///
    /// If reading fails, an [`Error`](crate::Error) variant will be returned.
    #[inline]
    fn read_args<R: Read + Seek>(reader: &mut R, args: Self::Args<'_>) -> BinResult<Self>
    where
        Self: ReadEndian,
    {
        Self::read_options(reader, Endian::Little, args)
    }

    /// Read `Self` from the reader, assuming big-endian byte order, using the
    /// given arguments.
    ///
    /// # Errors
    ///
    /// If reading fails, an [`Error`](crate::Error) variant will be returned.
    #[inline]
    fn read_be_args<R: Read + Seek>(reader: &mut R, args: Self::Args<'_>) -> BinResult<Self> {
        Self::read_options(reader, Endian::Big, args)
    }

    /// Read `Self` from the reader, assuming little-endian byte order, using
    /// the given arguments.
    ///
    /// # Errors
    ///
    /// If reading fails, an [`Error`](crate::Error) variant will be returned.
    #[inline]
    fn read_le_args<R: Read + Seek>(reader: &mut R, args: Self::Args<'_>) -> BinResult<Self> {
        Self::read_options(reader, Endian::Little, args)
    }

    /// Read `T` from the reader, assuming native-endian byte order, using the
    /// given arguments.
    ///
    /// # Errors
    ///
    /// If reading fails, an [`Error`](crate::Error) variant will be returned.
    #[inline]
    fn read_ne_args<R: Read + Seek>(reader: &mut R, args: Self::Args<'_>) -> BinResult<Self> {
        Self::read_options(reader, Endian::NATIVE, args)
    }

    /// Read `Self` from the reader using the given [`Endian`] and
    /// arguments.
    ///
    /// # Errors
    ///
    /// If reading fails, an [`Error`](crate::Error) variant will be returned.
    ///
    /// # Examples
    ///
    /// ```
    /// # use binrw::{BinRead, BinResult};
    /// # use binrw::io::{Read, Seek, SeekFrom};
    /// struct CustomPtr32<T>(T);
    ///
    /// impl<T> BinRead for CustomPtr32<T>
    /// where
    ///     for<'a> T: BinRead<Args<'a> = ()>,
    /// {
    ///     type Args<'a> = u64;
    ///
    ///     fn read_options<R: Read + Seek>(
    ///         reader: &mut R,
    ///         endian: binrw::Endian,
    ///         args: Self::Args<'_>,
    ///     ) -> BinResult<Self> {
    ///         let offset = u32::read_options(reader, endian, ())?;
    ///         let saved_position = reader.stream_position()?;
    ///
    ///         // Read from an offset with a provided base offset.
    ///         reader.seek(SeekFrom::Start(args + offset as u64))?;
    ///         let value = T::read_options(reader, endian, ())?;
    ///
    ///         reader.seek(SeekFrom::Start(saved_position))?;
    ///
    ///         Ok(CustomPtr32(value))
    ///     }
    /// }
    /// ```
    fn read_options<R: Read + Seek>(
        reader: &mut R,
        endian: Endian,
        args: Self::Args<'_>,
    ) -> BinResult<Self>;
}

/// Extension methods for reading [`BinRead`] objects directly from a reader.
///
/// # Examples
///
/// ```
/// use binrw::{BinReaderExt, Endian, io::Cursor};
///
/// let mut reader = Cursor::new(b"\x07\0\0\0\xCC\0\0\x05");
/// let x: u32 = reader.read_le().unwrap();
/// let y: u16 = reader.read_type(Endian::Little).unwrap();
/// let z = reader.read_be::<u16>().unwrap();
///
/// assert_eq!((x, y, z), (7u32, 0xCCu16, 5u16));
/// ```
pub trait BinReaderExt: Read + Seek + Sized {
    /// Read `T` from the reader with the given byte order.
    ///
    /// # Errors
    ///
    /// If reading fails, an [`Error`](crate::Error) variant will be returned.
    #[inline]
    fn read_type<'a, T>(&mut self, endian: Endian) -> BinResult<T>
    where
        T: BinRead,
        T::Args<'a>: Required,
    {
        self.read_type_args(endian, T::Args::args())
    }

    /// Read `T` from the reader assuming big-endian byte order.
    ///
    /// # Errors
    ///
    /// If reading fails, an [`Error`](crate::Error) variant will be returned.
    #[inline]
    fn read_be<'a, T>(&mut self) -> BinResult<T>
    where
        T: BinRead,
        T::Args<'a>: Required,
    {
        self.read_type(Endian::Big)
    }

    /// Read `T` from the reader assuming little-endian byte order.
    ///
    /// # Errors
    ///
    /// If reading fails, an [`Error`](crate::Error) variant will be returned.
    #[inline]
    fn read_le<'a, T>(&mut self) -> BinResult<T>
    where
        T: BinRead,
        T::Args<'a>: Required,
    {
        self.read_type(Endian::Little)
    }

    /// Read `T` from the reader assuming native-endian byte order.
    ///
    /// # Errors
    ///
    /// If reading fails, an [`Error`](crate::Error) variant will be returned.
    #[inline]
    fn read_ne<'a, T>(&mut self) -> BinResult<T>
    where
        T: BinRead,
        T::Args<'a>: Required,
    {
        self.read_type(Endian::NATIVE)
    }

    /// Read `T` from the reader with the given byte order and arguments.
    ///
    /// # Errors
    ///
    /// If reading fails, an [`Error`](crate::Error) variant will be returned.
    fn read_type_args<T>(&mut self, endian: Endian, args: T::Args<'_>) -> BinResult<T>
    where
        T: BinRead,
    {
        T::read_options(self, endian, args)
    }

    /// Read `T` from the reader, assuming big-endian byte order, using the
    /// given arguments.
    ///
    /// # Errors
    ///
    /// If reading fails, an [`Error`](crate::Error) variant will be returned.
    #[inline]
    fn read_be_args<T>(&mut self, args: T::Args<'_>) -> BinResult<T>
    where
        T: BinRead,
    {
        self.read_type_args(Endian::Big, args)
    }

    /// Read `T` from the reader, assuming little-endian byte order, using the
    /// given arguments.
    ///
    /// # Errors
    ///
    /// If reading fails, an [`Error`](crate::Error) variant will be returned.
    #[inline]
    fn read_le_args<T>(&mut self, args: T::Args<'_>) -> BinResult<T>
    where
        T: BinRead,
    {
        self.read_type_args(Endian::Little, args)
    }

    /// Read `T` from the reader, assuming native-endian byte order, using the
    /// given arguments.
    ///
    /// # Errors
    ///
    /// If reading fails, an [`Error`](crate::Error) variant will be returned.
    #[inline]
    fn read_ne_args<T>(&mut self, args: T::Args<'_>) -> BinResult<T>
    where
        T: BinRead,
    {
        self.read_type_args(Endian::NATIVE, args)
    }
}

impl<R: Read + Seek + Sized> BinReaderExt for R {}
