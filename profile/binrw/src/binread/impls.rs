use crate::{
    io::{self, Read, Seek},
    BinRead, BinResult, Endian, Error, NamedArgs,
};
#[cfg(not(feature = "std"))]
use alloc::{boxed::Box, vec::Vec};
use core::num::{
    NonZeroI128, NonZeroI16, NonZeroI32, NonZeroI64, NonZeroI8, NonZeroU128, NonZeroU16,
    NonZeroU32, NonZeroU64, NonZeroU8,
};

macro_rules! binread_impl {
    ($($type_name:ty),*$(,)?) => {
        $(
            impl BinRead for $type_name {
                type Args<'a> = ();

                fn read_options<R: Read + Seek>(reader: &mut R, endian: Endian, (): Self::Args<'_>) -> BinResult<Self> {
                    let mut val = [0; core::mem::size_of::<$type_name>()];
                    let pos = reader.stream_position()?;

                    reader.read_exact(&mut val).or_else(crate::__private::restore_position(reader, pos))?;
                    Ok(match endian {
                        Endian::Big => {
                            <$type_name>::from_be_bytes(val)
                        }
                        Endian::Little => {
                            <$type_name>::from_le_bytes(val)
                        }
                    })
                }
            }
        )*
    }
}

binread_impl!(u8, u16, u32, u64, u128, i8, i16, i32, i64, i128, f32, f64);

fn unexpected_zero_num() -> Error {
    Error::Io(io::Error::new(
        io::ErrorKind::InvalidData,
        "unexpected zero found",
    ))
}

macro_rules! binread_nonzero_impl {
    ($($Ty:ty, $Int:ty),* $(,)?) => {
        $(
            impl BinRead for $Ty {
                type Args<'a> = ();

                fn read_options<R: Read + Seek>(
                    reader: &mut R,
                    endian: Endian,
                    (): Self::Args<'_>,
                ) -> BinResult<Self> {
                    match <$Ty>::new(<$Int>::read_options(reader, endian, ())?) {
                        Some(x) => Ok(x),
                        None => Err(unexpected_zero_num()),
                    }
                }
            }
        )+
    }
}

binread_nonzero_impl! {
    NonZeroU8, u8, NonZeroU16, u16, NonZeroU32, u32, NonZeroU64, u64, NonZeroU128, u128,
    NonZeroI8, i8, NonZeroI16, i16, NonZeroI32, i32, NonZeroI64, i64, NonZeroI128, i128,
}

/// Named arguments for the [`BinRead::read_options()`] implementation of [`Vec`].
///
/// # Examples
///
/// ```
/// use binrw::{BinRead, io::Cursor};
///
/// #[derive(BinRead)]
/// # #[derive(Debug, PartialEq)]
/// #[br(little)]
/// struct Collection {
///     count: u16,
///     #[br(args {
///         count: count.into(),
///         inner: ElementBinReadArgs { count: 2 },
///     })]
///     elements: Vec<Element>,
/// }
///
/// #[derive(BinRead)]
/// # #[derive(Debug, PartialEq)]
/// #[br(import { count: usize })]
/// struct Element(#[br(args {
///     count,
///     inner: <_>::default(),
/// })] Vec<u8>);
///
/// assert_eq!(
///     Collection::read(&mut Cursor::new(b"\x03\0\x04\0\x05\0\x06\0")).unwrap(),
///     Collection {
///         count: 3,
///         elements: vec![
///             Element(vec![4, 0]),
///             Element(vec![5, 0]),
///             Element(vec![6, 0])
///         ]
///     }
/// )
/// ```
///
/// The `inner` field can be omitted completely if the inner type doesn’t
/// require arguments, in which case a default value will be used:
///
/// ```
/// # use binrw::prelude::*;
/// #[derive(BinRead)]
/// struct Collection {
///     count: u16,
///     #[br(args { count: count.into() })]
///     elements: Vec<u32>,
/// }
/// ```
#[derive(NamedArgs, Clone)]
pub struct VecArgs<Inner: Clone> {
    /// The number of elements to read.
    pub count: usize,

    /// The [arguments](crate::BinRead::Args) for the inner type.
    #[named_args(try_optional)]
    pub inner: Inner,
}

impl<B> BinRead for Vec<B>
where
    B: BinRead + 'static,
    for<'a> B::Args<'a>: Clone,
{
    type Args<'a> = VecArgs<B::Args<'a>>;

    fn read_options<R: Read + Seek>(
        reader: &mut R,
        endian: Endian,
        args: Self::Args<'_>,
    ) -> BinResult<Self> {
        crate::helpers::count_with(args.count, B::read_options)(reader, endian, args.inner)
    }
}

impl<B, const N: usize> BinRead for [B; N]
where
    B: BinRead,
    for<'a> B::Args<'a>: Clone,
{
    type Args<'a> = B::Args<'a>;

    fn read_options<R: Read + Seek>(
        reader: &mut R,
        endian: Endian,
        args: Self::Args<'_>,
    ) -> BinResult<Self> {
        array_init::try_array_init(|_| BinRead::read_options(reader, endian, args.clone()))
    }
}

macro_rules! binread_tuple_impl {
    ($type1:ident $(, $types:ident)*) => {
        #[allow(non_camel_case_types)]
        impl<Args: Clone, $type1: for<'a> BinRead<Args<'a> = Args>, $($types: for<'a> BinRead<Args<'a> = Args>),*> BinRead for ($type1, $($types),*) {
            type Args<'a> = Args;

            fn read_options<R: Read + Seek>(reader: &mut R, endian: Endian, args: Self::Args<'_>) -> BinResult<Self> {
                Ok((
                    BinRead::read_options(reader, endian, args.clone())?,
                    $(
                        <$types>::read_options(reader, endian, args.clone())?
                    ),*
                ))
            }
        }

        binread_tuple_impl!($($types),*);
    };

    () => {};
}

binread_tuple_impl!(
    b1, b2, b3, b4, b5, b6, b7, b8, b9, b10, b11, b12, b13, b14, b15, b16, b17, b18, b19, b20, b21,
    b22, b23, b24, b25, b26, b27, b28, b29, b30, b31, b32
);

impl BinRead for () {
    type Args<'a> = ();

    fn read_options<R: Read + Seek>(_: &mut R, _: Endian, (): Self::Args<'_>) -> BinResult<Self> {
        Ok(())
    }
}

impl<T: BinRead> BinRead for Box<T> {
    type Args<'a> = T::Args<'a>;

    fn read_options<R: Read + Seek>(
        reader: &mut R,
        endian: Endian,
        args: Self::Args<'_>,
    ) -> BinResult<Self> {
        Ok(Box::new(T::read_options(reader, endian, args)?))
    }
}

impl<T: BinRead> BinRead for Option<T> {
    type Args<'a> = T::Args<'a>;

    fn read_options<R: Read + Seek>(
        reader: &mut R,
        endian: Endian,
        args: Self::Args<'_>,
    ) -> BinResult<Self> {
        Ok(Some(T::read_options(reader, endian, args)?))
    }
}

impl<T> BinRead for core::marker::PhantomData<T> {
    type Args<'a> = ();

    fn read_options<R: Read + Seek>(_: &mut R, _: Endian, (): Self::Args<'_>) -> BinResult<Self> {
        Ok(core::marker::PhantomData)
    }
}
