//! Type definitions for string readers.

use crate::{
    alloc::string::{FromUtf16Error, FromUtf8Error},
    io::{Read, Seek, Write},
    BinRead, BinResult, BinWrite, Endian,
};
#[cfg(not(feature = "std"))]
use alloc::{string::String, vec, vec::Vec};
use core::fmt::{self, Write as _};

/// A null-terminated 8-bit string.
///
/// The null terminator is consumed and not included in the value.
///
/// ```
/// use binrw::{BinRead, BinReaderExt, NullString, io::Cursor};
///
/// let mut null_separated_strings = Cursor::new(b"null terminated strings? in my system's language?\0no thanks\0");
///
/// assert_eq!(
///     null_separated_strings.read_be::<NullString>().unwrap().to_string(),
///     "null terminated strings? in my system's language?"
/// );
///
/// assert_eq!(
///     null_separated_strings.read_be::<NullString>().unwrap().to_string(),
///     "no thanks"
/// );
/// ```
#[derive(Clone, Eq, PartialEq, Default)]
pub struct NullString(
    /// The raw byte string.
    pub Vec<u8>,
);

impl BinRead for NullString {
    type Args<'a> = ();

    fn read_options<R: Read + Seek>(
        reader: &mut R,
        endian: Endian,
        (): Self::Args<'_>,
    ) -> BinResult<Self> {
        let mut values = vec![];

        loop {
            let val = <u8>::read_options(reader, endian, ())?;
            if val == 0 {
                return Ok(Self(values));
            }
            values.push(val);
        }
    }
}

impl BinWrite for NullString {
    type Args<'a> = ();

    fn write_options<W: Write + Seek>(
        &self,
        writer: &mut W,
        endian: Endian,
        args: Self::Args<'_>,
    ) -> BinResult<()> {
        self.0.write_options(writer, endian, args)?;
        0u8.write_options(writer, endian, args)?;

        Ok(())
    }
}

impl From<&str> for NullString {
    fn from(s: &str) -> Self {
        Self(s.as_bytes().to_vec())
    }
}

impl From<String> for NullString {
    fn from(s: String) -> Self {
        Self(s.into_bytes())
    }
}

impl From<NullString> for Vec<u8> {
    fn from(s: NullString) -> Self {
        s.0
    }
}

impl TryFrom<NullString> for String {
    type Error = FromUtf8Error;

    fn try_from(value: NullString) -> Result<Self, Self::Error> {
        String::from_utf8(value.0)
    }
}

impl core::ops::Deref for NullString {
    type Target = Vec<u8>;

    fn deref(&self) -> &Self::Target {
        &self.0
    }
}

impl core::ops::DerefMut for NullString {
    fn deref_mut(&mut self) -> &mut Self::Target {
        &mut self.0
    }
}

impl fmt::Debug for NullString {
    fn fmt(&self, f: &mut fmt::Formatter<'_>) -> fmt::Result {
        write!(f, "NullString(\"")?;
        display_utf8(&self.0, f, str::escape_debug)?;
        write!(f, "\")")
    }
}

impl fmt::Display for NullString {
    fn fmt(&self, f: &mut fmt::Formatter<'_>) -> fmt::Result {
        display_utf8(&self.0, f, str::chars)
    }
}

/// A null-terminated 16-bit string.
///
/// The null terminator must also be 16-bits, and is consumed and not included
/// in the value.
///
/// ```
/// use binrw::{BinRead, BinReaderExt, NullWideString, io::Cursor};
///
/// const WIDE_STRINGS: &[u8] = b"w\0i\0d\0e\0 \0s\0t\0r\0i\0n\0g\0s\0\0\0";
/// const ARE_ENDIAN_DEPENDENT: &[u8] = b"\0a\0r\0e\0 \0e\0n\0d\0i\0a\0n\0 \0d\0e\0p\0e\0n\0d\0e\0n\0t\0\0";
///
/// let mut wide_strings = Cursor::new(WIDE_STRINGS);
/// let mut are_endian_dependent = Cursor::new(ARE_ENDIAN_DEPENDENT);
///
/// assert_eq!(
///     // notice: read_le
///     wide_strings.read_le::<NullWideString>().unwrap().to_string(),
///     "wide strings"
/// );
///
/// assert_eq!(
///     // notice: read_be
///     are_endian_dependent.read_be::<NullWideString>().unwrap().to_string(),
///     "are endian dependent"
/// );
/// ```
#[derive(Clone, Eq, PartialEq, Default)]
pub struct NullWideString(
    /// The raw wide byte string.
    pub Vec<u16>,
);

impl BinRead for NullWideString {
    type Args<'a> = ();

    fn read_options<R: Read + Seek>(
        reader: &mut R,
        endian: Endian,
        (): Self::Args<'_>,
    ) -> BinResult<Self> {
        let mut values = vec![];

        loop {
            let val = <u16>::read_options(reader, endian, ())?;
            if val == 0 {
                return Ok(Self(values));
            }
            values.push(val);
        }
    }
}

impl BinWrite for NullWideString {
    type Args<'a> = ();

    fn write_options<W: Write + Seek>(
        &self,
        writer: &mut W,
        endian: Endian,
        args: Self::Args<'_>,
    ) -> BinResult<()> {
        self.0.write_options(writer, endian, args)?;
        0u16.write_options(writer, endian, args)?;

        Ok(())
    }
}

impl From<NullWideString> for Vec<u16> {
    fn from(s: NullWideString) -> Self {
        s.0
    }
}

impl From<&str> for NullWideString {
    fn from(s: &str) -> Self {
        Self(s.encode_utf16().collect())
    }
}

impl From<String> for NullWideString {
    fn from(s: String) -> Self {
        Self(s.encode_utf16().collect())
    }
}

impl TryFrom<NullWideString> for String {
    type Error = FromUtf16Error;

    fn try_from(value: NullWideString) -> Result<Self, Self::Error> {
        String::from_utf16(&value.0)
    }
}

impl core::ops::Deref for NullWideString {
    type Target = Vec<u16>;

    fn deref(&self) -> &Self::Target {
        &self.0
    }
}

impl core::ops::DerefMut for NullWideString {
    fn deref_mut(&mut self) -> &mut Self::Target {
        &mut self.0
    }
}

impl fmt::Display for NullWideString {
    fn fmt(&self, f: &mut fmt::Formatter<'_>) -> fmt::Result {
        display_utf16(&self.0, f, core::iter::once)
    }
}

impl fmt::Debug for NullWideString {
    fn fmt(&self, f: &mut fmt::Formatter<'_>) -> fmt::Result {
        write!(f, "NullWideString(\"")?;
        display_utf16(&self.0, f, char::escape_debug)?;
        write!(f, "\")")
    }
}

fn display_utf16<Transformer: Fn(char) -> O, O: Iterator<Item = char>>(
    input: &[u16],
    f: &mut fmt::Formatter<'_>,
    t: Transformer,
) -> fmt::Result {
    char::decode_utf16(input.iter().copied())
        .flat_map(|r| t(r.unwrap_or(char::REPLACEMENT_CHARACTER)))
        .try_for_each(|c| f.write_char(c))
}

fn display_utf8<'a, Transformer: Fn(&'a str) -> O, O: Iterator<Item = char> + 'a>(
    mut input: &'a [u8],
    f: &mut fmt::Formatter<'_>,
    t: Transformer,
) -> fmt::Result {
    // Adapted from <https://doc.rust-lang.org/std/str/struct.Utf8Error.html>
    loop {
        match core::str::from_utf8(input) {
            Ok(valid) => {
                t(valid).try_for_each(|c| f.write_char(c))?;
                break;
            }
            Err(error) => {
                let (valid, after_valid) = input.split_at(error.valid_up_to());

                t(core::str::from_utf8(valid).unwrap()).try_for_each(|c| f.write_char(c))?;
                f.write_char(char::REPLACEMENT_CHARACTER)?;

                if let Some(invalid_sequence_length) = error.error_len() {
                    input = &after_valid[invalid_sequence_length..];
                } else {
                    break;
                }
            }
        }
    }
    Ok(())
}
