//! Types for seekable reader adapters which limit the number of bytes read from
//! the underlying reader.

use super::{Read, Result, Seek, SeekFrom};

/// Read adapter which limits the bytes read from an underlying reader, with
/// seek support.
///
/// This struct is generally created by importing the [`TakeSeekExt`] extension
/// and calling [`take_seek`] on a reader.
///
/// [`take_seek`]: TakeSeekExt::take_seek
#[derive(Debug)]
pub struct TakeSeek<T> {
    inner: T,
    pos: u64,
    end: u64,
}

impl<T> TakeSeek<T> {
    /// Gets a reference to the underlying reader.
    pub fn get_ref(&self) -> &T {
        &self.inner
    }

    /// Gets a mutable reference to the underlying reader.
    ///
    /// Care should be taken to avoid modifying the internal I/O state of the
    /// underlying reader as doing so may corrupt the internal limit of this
    /// `TakeSeek`.
    pub fn get_mut(&mut self) -> &mut T {
        &mut self.inner
    }

    /// Consumes this wrapper, returning the wrapped value.
    pub fn into_inner(self) -> T {
        self.inner
    }

    /// Returns the number of bytes that can be read before this instance will
    /// return EOF.
    ///
    /// # Note
    ///
    /// This instance may reach EOF after reading fewer bytes than indicated by
    /// this method if the underlying [`Read`] instance reaches EOF.
    pub fn limit(&self) -> u64 {
        self.end.saturating_sub(self.pos)
    }
}

impl<T: Seek> TakeSeek<T> {
    /// Sets the number of bytes that can be read before this instance will
    /// return EOF. This is the same as constructing a new `TakeSeek` instance,
    /// so the amount of bytes read and the previous limit value don’t matter
    /// when calling this method.
    ///
    /// # Panics
    ///
    /// Panics if the inner stream returns an error from `stream_position`.
    pub fn set_limit(&mut self, limit: u64) {
        let pos = self
            .inner
            .stream_position()
            .expect("cannot get position for `set_limit`");
        self.pos = pos;
        self.end = pos + limit;
    }
}

impl<T: Read> Read for TakeSeek<T> {
    fn read(&mut self, buf: &mut [u8]) -> Result<usize> {
        let limit = self.limit();

        // Don't call into inner reader at all at EOF because it may still block
        if limit == 0 {
            return Ok(0);
        }

        // Lint: It is impossible for this cast to truncate because the value
        // being cast is the minimum of two values, and one of the value types
        // is already `usize`.
        #[allow(clippy::cast_possible_truncation)]
        let max = (buf.len() as u64).min(limit) as usize;
        let n = self.inner.read(&mut buf[0..max])?;
        self.pos += n as u64;
        Ok(n)
    }
}

impl<T: Seek> Seek for TakeSeek<T> {
    fn seek(&mut self, pos: SeekFrom) -> Result<u64> {
        let pos = match pos {
            SeekFrom::End(end) => match self.end.checked_add_signed(end) {
                Some(pos) => SeekFrom::Start(pos),
                None => {
                    return Err(super::Error::new(
                        super::ErrorKind::InvalidInput,
                        "invalid seek to a negative or overflowing position",
                    ))
                }
            },
            pos => pos,
        };
        self.pos = self.inner.seek(pos)?;
        Ok(self.pos)
    }

    fn stream_position(&mut self) -> Result<u64> {
        Ok(self.pos)
    }
}

/// An extension trait that implements `take_seek()` for compatible streams.
pub trait TakeSeekExt {
    /// Creates an adapter which will read at most `limit` bytes from the
    /// wrapped stream.
    fn take_seek(self, limit: u64) -> TakeSeek<Self>
    where
        Self: Sized;
}

impl<T: Read + Seek> TakeSeekExt for T {
    fn take_seek(mut self, limit: u64) -> TakeSeek<Self>
    where
        Self: Sized,
    {
        let pos = self
            .stream_position()
            .expect("cannot get position for `take_seek`");

        TakeSeek {
            inner: self,
            pos,
            end: pos + limit,
        }
    }
}
