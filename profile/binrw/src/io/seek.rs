//! Wrapper type that provides a fake [`Seek`](crate::io::Seek) implementation.

use super::{Error, ErrorKind, SeekFrom};
#[cfg(not(feature = "std"))]
use alloc::{string::String, vec::Vec};

/// A wrapper that provides a limited implementation of
/// [`Seek`](crate::io::Seek) for unseekable [`Read`](crate::io::Read) and
/// [`Write`](crate::io::Write) streams.
///
/// This is useful when reading or writing from unseekable streams where binrw
/// does not *actually* need to seek to successfully parse or write the data.
pub struct NoSeek<T> {
    /// The original stream.
    inner: T,
    /// The virtual position of the seekable stream.
    pos: u64,
}

impl<T> NoSeek<T> {
    /// Creates a new seekable wrapper for the given value.
    pub fn new(inner: T) -> Self {
        NoSeek { inner, pos: 0 }
    }

    /// Gets a mutable reference to the underlying value.
    pub fn get_mut(&mut self) -> &mut T {
        &mut self.inner
    }

    /// Gets a reference to the underlying value.
    pub fn get_ref(&self) -> &T {
        &self.inner
    }

    /// Consumes this wrapper, returning the underlying value.
    pub fn into_inner(self) -> T {
        self.inner
    }
}

impl<T> super::Seek for NoSeek<T> {
    fn seek(&mut self, pos: SeekFrom) -> super::Result<u64> {
        match pos {
            SeekFrom::Start(n) if self.pos == n => Ok(n),
            SeekFrom::Current(0) => Ok(self.pos),
            // https://github.com/rust-lang/rust/issues/86442
            _ => Err(Error::new(ErrorKind::Other, "seek on unseekable file")),
        }
    }

    fn stream_position(&mut self) -> super::Result<u64> {
        Ok(self.pos)
    }
}

impl<T: super::Read> super::Read for NoSeek<T> {
    fn read(&mut self, buf: &mut [u8]) -> super::Result<usize> {
        let n = self.inner.read(buf)?;
        self.pos += n as u64;
        Ok(n)
    }

    #[cfg(feature = "std")]
    fn read_vectored(&mut self, bufs: &mut [std::io::IoSliceMut<'_>]) -> super::Result<usize> {
        let n = self.inner.read_vectored(bufs)?;
        self.pos += n as u64;
        Ok(n)
    }

    fn read_to_end(&mut self, buf: &mut Vec<u8>) -> super::Result<usize> {
        let n = self.inner.read_to_end(buf)?;
        self.pos += n as u64;
        Ok(n)
    }

    fn read_to_string(&mut self, buf: &mut String) -> super::Result<usize> {
        let n = self.inner.read_to_string(buf)?;
        self.pos += n as u64;
        Ok(n)
    }

    fn read_exact(&mut self, buf: &mut [u8]) -> super::Result<()> {
        self.inner.read_exact(buf)?;
        self.pos += buf.len() as u64;
        Ok(())
    }
}

impl<T: super::Write> super::Write for NoSeek<T> {
    fn write(&mut self, buf: &[u8]) -> super::Result<usize> {
        let n = self.inner.write(buf)?;
        self.pos += n as u64;
        Ok(n)
    }

    fn flush(&mut self) -> super::Result<()> {
        self.inner.flush()
    }

    #[cfg(feature = "std")]
    fn write_vectored(&mut self, bufs: &[std::io::IoSlice<'_>]) -> super::Result<usize> {
        let n = self.inner.write_vectored(bufs)?;
        self.pos += n as u64;
        Ok(n)
    }

    fn write_all(&mut self, buf: &[u8]) -> super::Result<()> {
        self.inner.write_all(buf)?;
        self.pos += buf.len() as u64;
        Ok(())
    }
}
