//! Wrapper type to add buffering to read streams.

use super::SeekFrom;

/// A wrapper to add buffering to a read stream.
///
/// Unlike [`std::io::BufReader`], this wrapper does not invalidate the read
/// buffer every time a [`Seek`](super::Seek) method is called. It also caches
/// the underlying stream position to avoid unnecessary system calls.
///
/// # Limitations
///
/// Reading or seeking the wrapped stream object directly will cause an
/// inconsistency in the internal state of the `BufReader`. Calling
/// [`BufReader::seek_invalidate`] will clear the read buffer and reset the
/// internal state to be consistent with the wrapped stream.
#[cfg_attr(all(doc, nightly), doc(cfg(feature = "std")))]
pub struct BufReader<T> {
    inner: std::io::BufReader<T>,
    pos: Option<u64>,
}

impl<T: super::Read> BufReader<T> {
    /// Creates a new `BufReader<T>` with a default buffer capacity.
    pub fn new(inner: T) -> BufReader<T> {
        BufReader {
            inner: std::io::BufReader::new(inner),
            pos: None,
        }
    }

    /// Creates a new `BufReader<T>` with the specified buffer capacity.
    pub fn with_capacity(capacity: usize, inner: T) -> BufReader<T> {
        BufReader {
            inner: std::io::BufReader::with_capacity(capacity, inner),
            pos: None,
        }
    }
}

impl<T> BufReader<T> {
    /// Returns a reference to the internally buffered data.
    pub fn buffer(&self) -> &[u8] {
        self.inner.buffer()
    }

    /// Returns the number of bytes the internal buffer can hold at once.
    pub fn capacity(&self) -> usize {
        self.inner.capacity()
    }

    /// Gets a mutable reference to the underlying reader.
    ///
    /// It is inadvisable to directly read from the underlying reader as it
    /// will, at the least, break the cached position information.
    pub fn get_mut(&mut self) -> &mut T {
        self.inner.get_mut()
    }

    /// Gets a reference to the underlying reader.
    pub fn get_ref(&self) -> &T {
        self.inner.get_ref()
    }

    /// Unwraps this `BufReader<T>`, returning the underlying reader.
    ///
    /// Note that any leftover data in the internal buffer is lost. Therefore,
    /// a following read from the underlying reader may lead to data loss.
    pub fn into_inner(self) -> T {
        self.inner.into_inner()
    }
}

impl<T: super::Seek> BufReader<T> {
    /// Performs a seek that forces invalidation of the buffer and internal
    /// position state.
    ///
    /// # Errors
    ///
    /// Returns an error if seeking fails.
    pub fn seek_invalidate(&mut self, pos: SeekFrom) -> super::Result<u64> {
        let n = super::Seek::seek(&mut self.inner, pos)?;
        self.pos = Some(n);
        Ok(n)
    }
}

impl<T: super::Read> super::Read for BufReader<T> {
    fn read(&mut self, buf: &mut [u8]) -> super::Result<usize> {
        let n = self.inner.read(buf)?;
        if let Some(pos) = &mut self.pos {
            *pos += n as u64;
        }
        Ok(n)
    }

    fn read_vectored(&mut self, bufs: &mut [std::io::IoSliceMut<'_>]) -> super::Result<usize> {
        let n = self.inner.read_vectored(bufs)?;
        if let Some(pos) = &mut self.pos {
            *pos += n as u64;
        }
        Ok(n)
    }

    fn read_to_end(&mut self, buf: &mut Vec<u8>) -> super::Result<usize> {
        let n = self.inner.read_to_end(buf)?;
        if let Some(pos) = &mut self.pos {
            *pos += n as u64;
        }
        Ok(n)
    }

    fn read_to_string(&mut self, buf: &mut String) -> super::Result<usize> {
        let n = self.inner.read_to_string(buf)?;
        if let Some(pos) = &mut self.pos {
            *pos += n as u64;
        }
        Ok(n)
    }

    fn read_exact(&mut self, buf: &mut [u8]) -> super::Result<()> {
        self.inner.read_exact(buf)?;
        if let Some(pos) = &mut self.pos {
            *pos += buf.len() as u64;
        }
        Ok(())
    }
}

impl<T: super::Seek> super::Seek for BufReader<T> {
    fn seek(&mut self, pos: SeekFrom) -> super::Result<u64> {
        let old = self.stream_position()?;

        match pos {
            SeekFrom::Start(n) => {
                if old == n {
                    Ok(old)
                } else {
                    let rel_n = if n >= old {
                        i64::try_from(n - old)
                    } else {
                        i64::try_from(old - n).map(|n| -n)
                    };

                    let n = if let Ok(rel_n) = rel_n {
                        self.seek(SeekFrom::Current(rel_n))?
                    } else {
                        self.inner.seek(pos)?
                    };

                    self.pos = Some(n);
                    Ok(n)
                }
            }
            SeekFrom::End(_) => {
                let n = self.inner.seek(pos)?;
                self.pos = Some(n);
                Ok(n)
            }
            SeekFrom::Current(rel_n) => {
                if rel_n == 0 {
                    Ok(old)
                } else {
                    // https://github.com/rust-lang/rust/issues/87840
                    let n = if rel_n >= 0 {
                        // Lint: The sign is checked in precondition above
                        #[allow(clippy::cast_sign_loss)]
                        old.checked_add(rel_n as u64)
                    } else {
                        old.checked_sub(rel_n.unsigned_abs())
                    };

                    if let Some(n) = n {
                        self.inner.seek_relative(rel_n)?;
                        self.pos = Some(n);
                        Ok(n)
                    } else {
                        Err(super::Error::new(
                            super::ErrorKind::InvalidInput,
                            "invalid seek to a negative or overflowing position",
                        ))
                    }
                }
            }
        }
    }

    fn stream_position(&mut self) -> super::Result<u64> {
        Ok(match self.pos {
            None => {
                let pos = self.inner.stream_position()?;
                self.pos = Some(pos);
                pos
            }
            Some(pos) => pos,
        })
    }
}

impl<T: super::Read> std::io::BufRead for BufReader<T> {
    fn fill_buf(&mut self) -> super::Result<&[u8]> {
        self.inner.fill_buf()
    }

    fn consume(&mut self, amt: usize) {
        self.inner.consume(amt);
    }
}
