//! The I/O Prelude
//!
//! The purpose of this module is to alleviate imports of many common I/O traits
//! by adding a glob import to the top of I/O heavy modules:
//!
//! ```
//! # #![allow(unused_imports)]
//! use binrw::io::prelude::*;
//! ```

pub use super::{Read, Seek, Write};
