//! Traits, helpers, and type definitions for core I/O functionality.
//!
//! By default, this module simply re-exports the parts of [`std::io`] that are
//! used by binrw. In `no_std` environments, a compatible subset API is exposed
//! instead.

#[cfg(feature = "std")]
mod bufreader;
#[cfg(not(feature = "std"))]
mod no_std;
pub mod prelude;
mod seek;
mod take_seek;

#[cfg(feature = "std")]
pub use bufreader::BufReader;
#[cfg(all(doc, not(feature = "std")))]
#[doc(hidden)]
pub struct BufReader;
#[cfg(not(feature = "std"))]
pub use no_std::*;
pub use seek::NoSeek;
#[cfg(feature = "std")]
pub use std::io::{Bytes, Cursor, Error, ErrorKind, Read, Result, Seek, SeekFrom, Write};
pub use take_seek::*;
