use core::fmt;

/// The error type for I/O operations of the [`Read`], [`Write`], [`Seek`], and
/// associated traits.
///
/// [`Read`]: super::Read
/// [`Write`]: super::Write
/// [`Seek`]: super::Seek
pub struct Error {
    repr: Repr,
}

impl fmt::Debug for Error {
    fn fmt(&self, f: &mut fmt::Formatter<'_>) -> fmt::Result {
        fmt::Debug::fmt(&self.repr, f)
    }
}

impl fmt::Display for Error {
    fn fmt(&self, f: &mut fmt::Formatter<'_>) -> fmt::Result {
        fmt::Debug::fmt(&self, f)
    }
}

#[derive(Debug)]
enum Repr {
    Simple(ErrorKind),
}

/// A list specifying general categories of I/O error.
#[non_exhaustive]
#[derive(Clone, Copy, Debug, Eq, PartialEq)]
pub enum ErrorKind {
    /// An entity was not found, often a file.
    NotFound,
    /// The operation lacked the necessary privileges to complete.
    PermissionDenied,
    /// The connection was refused by the remote server.
    ConnectionRefused,
    /// The connection was reset by the remote server.
    ConnectionReset,
    /// The connection was aborted (terminated) by the remote server.
    ConnectionAborted,
    /// The network operation failed because it was not connected yet.
    NotConnected,
    /// A socket address could not be bound because the address is already in
    /// use elsewhere.
    AddrInUse,
    /// A nonexistent interface was requested or the requested address was not
    /// local.
    AddrNotAvailable,
    /// The operation failed because a pipe was closed.
    BrokenPipe,
    /// An entity already exists, often a file.
    AlreadyExists,
    /// The operation needs to block to complete, but the blocking operation was
    /// requested to not occur.
    WouldBlock,
    /// A parameter was incorrect.
    InvalidInput,
    /// Data not valid for the operation were encountered.
    InvalidData,
    /// The I/O operation's timeout expired, causing it to be canceled.
    TimedOut,
    /// An error returned when an operation could not be completed because a
    /// call to [`write`] returned [`Ok(0)`].
    WriteZero,
    /// This operation was interrupted.
    Interrupted,
    /// Any I/O error not part of this list.
    Other,
    /// An error returned when an operation could not be completed because an
    /// "end of file" was reached prematurely.
    UnexpectedEof,
}

impl Error {
    /// Creates a new I/O error from a known kind of error as well as an
    /// arbitrary error payload.
    #[must_use]
    pub fn new<A>(kind: ErrorKind, _: A) -> Self {
        Self {
            repr: Repr::Simple(kind),
        }
    }

    /// Returns the corresponding [`ErrorKind`] for this error.
    #[must_use]
    pub fn kind(&self) -> ErrorKind {
        match self.repr {
            Repr::Simple(kind) => kind,
        }
    }
}

impl From<ErrorKind> for Error {
    fn from(kind: ErrorKind) -> Self {
        Self {
            repr: Repr::Simple(kind),
        }
    }
}
