use super::{Error, ErrorKind, Read, Result, Seek, SeekFrom, Write};
use alloc::{boxed::Box, vec::Vec};
use core::cmp;

/// A `Cursor` wraps an in-memory buffer and provides it with a
/// [`Seek`] implementation.
#[derive(Clone, Debug, Default)]
pub struct Cursor<T: AsRef<[u8]>> {
    inner: T,
    pos: u64,
}

impl<T: AsRef<[u8]>> Cursor<T> {
    /// Gets a mutable reference to the underlying value in this cursor.
    pub fn get_mut(&mut self) -> &mut T {
        &mut self.inner
    }

    /// Gets a reference to the underlying value in this cursor.
    pub fn get_ref(&self) -> &T {
        &self.inner
    }

    /// Consumes this cursor, returning the underlying value.
    pub fn into_inner(self) -> T {
        self.inner
    }

    /// Creates a new cursor wrapping the provided underlying in-memory buffer.
    pub fn new(inner: T) -> Self {
        Self { inner, pos: 0 }
    }

    /// Returns the current position of this cursor.
    pub fn position(&self) -> u64 {
        self.pos
    }

    /// Sets the position of this cursor.
    pub fn set_position(&mut self, pos: u64) {
        self.pos = pos;
    }
}

impl<T: AsRef<[u8]>> Read for Cursor<T> {
    fn read(&mut self, buf: &mut [u8]) -> Result<usize> {
        let slice = self.inner.as_ref();
        if self.pos > slice.len() as u64 {
            return Ok(0);
        }
        let amt = u64::min(slice.len() as u64 - self.pos, buf.len() as u64);
        buf[..amt as usize].copy_from_slice(&slice[self.pos as usize..(self.pos + amt) as usize]);
        self.pos += amt;
        Ok(amt as usize)
    }
}

impl<T: AsRef<[u8]>> Seek for Cursor<T> {
    fn seek(&mut self, pos: SeekFrom) -> Result<u64> {
        let (base_pos, offset) = match pos {
            SeekFrom::Start(n) => {
                self.pos = n;
                return Ok(n);
            }
            SeekFrom::End(n) => (self.inner.as_ref().len() as u64, n),
            SeekFrom::Current(n) => (self.pos, n),
        };
        let new_pos = if offset >= 0 {
            base_pos.checked_add(offset as u64)
        } else {
            base_pos.checked_sub((offset.wrapping_neg()) as u64)
        };
        match new_pos {
            Some(n) => {
                self.pos = n;
                Ok(self.pos)
            }
            None => Err(Error::new(
                ErrorKind::InvalidInput,
                "invalid seek to a negative or overflowing position",
            )),
        }
    }

    fn stream_position(&mut self) -> Result<u64> {
        Ok(self.pos)
    }
}

// Non-resizing write implementation
#[inline]
fn slice_write(pos_mut: &mut u64, slice: &mut [u8], buf: &[u8]) -> Result<usize> {
    let pos = cmp::min(*pos_mut, slice.len() as u64);
    let amt = (&mut slice[(pos as usize)..]).write(buf)?;
    *pos_mut += amt as u64;
    Ok(amt)
}

// Resizing write implementation
fn vec_write(pos_mut: &mut u64, vec: &mut Vec<u8>, buf: &[u8]) -> Result<usize> {
    let pos: usize = (*pos_mut).try_into().map_err(|_| {
        Error::new(
            ErrorKind::InvalidInput,
            &"cursor position exceeds maximum possible vector length",
        )
    })?;
    // Make sure the internal buffer is as least as big as where we
    // currently are
    let len = vec.len();
    if len < pos {
        // use `resize` so that the zero filling is as efficient as possible
        vec.resize(pos, 0);
    }
    // Figure out what bytes will be used to overwrite what's currently
    // there (left), and what will be appended on the end (right)
    {
        let space = vec.len() - pos;
        let (left, right) = buf.split_at(cmp::min(space, buf.len()));
        vec[pos..pos + left.len()].copy_from_slice(left);
        vec.extend_from_slice(right);
    }

    // Bump us forward
    *pos_mut = (pos + buf.len()) as u64;
    Ok(buf.len())
}

impl Write for Cursor<&mut [u8]> {
    #[inline]
    fn write(&mut self, buf: &[u8]) -> Result<usize> {
        slice_write(&mut self.pos, self.inner, buf)
    }

    #[inline]
    fn flush(&mut self) -> Result<()> {
        Ok(())
    }
}

impl Write for Cursor<&mut Vec<u8>> {
    fn write(&mut self, buf: &[u8]) -> Result<usize> {
        vec_write(&mut self.pos, self.inner, buf)
    }

    #[inline]
    fn flush(&mut self) -> Result<()> {
        Ok(())
    }
}

impl Write for Cursor<Vec<u8>> {
    fn write(&mut self, buf: &[u8]) -> Result<usize> {
        vec_write(&mut self.pos, &mut self.inner, buf)
    }

    #[inline]
    fn flush(&mut self) -> Result<()> {
        Ok(())
    }
}

impl Write for Cursor<Box<[u8]>> {
    #[inline]
    fn write(&mut self, buf: &[u8]) -> Result<usize> {
        slice_write(&mut self.pos, &mut self.inner, buf)
    }

    #[inline]
    fn flush(&mut self) -> Result<()> {
        Ok(())
    }
}
