// Lint: This code is mostly taken from `std::io` which does not use the
// pedantic lint group.
#![allow(clippy::pedantic)]

mod cursor;
mod error;

use alloc::{string::String, vec::Vec};
use core::{cmp, fmt, mem};
pub use {
    cursor::Cursor,
    error::{Error, ErrorKind},
};

/// A specialized [`Result`] type for I/O operations.
pub type Result<T> = core::result::Result<T, Error>;

/// The `Read` trait allows for reading bytes from a source.
pub trait Read {
    /// Pull some bytes from this source into the specified buffer, returning
    /// how many bytes were read.
    fn read(&mut self, buf: &mut [u8]) -> Result<usize>;

    /// Read the exact number of bytes required to fill `buf`.
    fn read_exact(&mut self, mut buf: &mut [u8]) -> Result<()> {
        while !buf.is_empty() {
            match self.read(buf) {
                Ok(0) => break,
                Ok(n) => {
                    let tmp = buf;
                    buf = &mut tmp[n..];
                }
                Err(ref e) if e.kind() == ErrorKind::Interrupted => {}
                Err(e) => return Err(e),
            }
        }
        if !buf.is_empty() {
            Err(Error::new(
                ErrorKind::UnexpectedEof,
                "failed to fill whole buffer",
            ))
        } else {
            Ok(())
        }
    }

    /// Read all bytes until EOF in this source, placing them into `buf`.
    fn read_to_end(&mut self, buf: &mut Vec<u8>) -> Result<usize> {
        let mut tmp = [0; 32];
        let mut amt = 0;

        loop {
            match self.read(&mut tmp) {
                Ok(0) => break Ok(amt),
                Ok(n) => {
                    amt += n;
                    buf.extend_from_slice(&tmp[..n]);
                }
                Err(err) if err.kind() == ErrorKind::Interrupted => continue,
                err @ Err(_) => return err,
            }
        }
    }

    /// Read all bytes until EOF in this source, appending them to `buf`.
    fn read_to_string(&mut self, buf: &mut String) -> Result<usize> {
        let mut tmp = Vec::new();
        let amt = self.read_to_end(&mut tmp)?;
        let str = core::str::from_utf8(&tmp).map_err(|_| {
            Error::new(ErrorKind::InvalidData, "stream did not contain valid UTF-8")
        })?;
        buf.push_str(str);
        Ok(amt)
    }

    /// Transforms this `Read` instance to an [`Iterator`] over its bytes.
    fn bytes(self) -> Bytes<Self>
    where
        Self: Sized,
    {
        Bytes { inner: self }
    }

    /// Creates a "by reference" adaptor for this instance of `Read`.
    fn by_ref(&mut self) -> &mut Self
    where
        Self: Sized,
    {
        self
    }

    /// Creates an adaptor which will read at most `limit` bytes from it.
    fn take(self, limit: u64) -> Take<Self>
    where
        Self: Sized,
    {
        Take { inner: self, limit }
    }
}

/// Reader adaptor which limits the bytes read from an underlying reader.
///
/// This struct is generally created by calling [`take`] on a reader.
/// Please see the documentation of [`take`] for more details.
///
/// [`take`]: Read::take
#[derive(Debug)]
pub struct Take<T> {
    inner: T,
    limit: u64,
}

impl<T> Take<T> {
    /// Returns the number of bytes that can be read before this instance will
    /// return EOF.
    pub fn limit(&self) -> u64 {
        self.limit
    }

    /// Sets the number of bytes that can be read before this instance will
    /// return EOF. This is the same as constructing a new `Take` instance, so
    /// the amount of bytes read and the previous limit value don't matter when
    /// calling this method.
    pub fn set_limit(&mut self, limit: u64) {
        self.limit = limit;
    }

    /// Consumes the `Take`, returning the wrapped reader.
    pub fn into_inner(self) -> T {
        self.inner
    }

    /// Gets a reference to the underlying reader.
    pub fn get_ref(&self) -> &T {
        &self.inner
    }

    /// Gets a mutable reference to the underlying reader.
    pub fn get_mut(&mut self) -> &mut T {
        &mut self.inner
    }
}

impl<T: Read> Read for Take<T> {
    fn read(&mut self, buf: &mut [u8]) -> Result<usize> {
        // Don't call into inner reader at all at EOF because it may still block
        if self.limit == 0 {
            return Ok(0);
        }

        let max = core::cmp::min(buf.len() as u64, self.limit) as usize;
        let n = self.inner.read(&mut buf[..max])?;
        self.limit -= n as u64;
        Ok(n)
    }
}

impl<R: Read + ?Sized> Read for &mut R {
    #[inline]
    fn read(&mut self, buf: &mut [u8]) -> Result<usize> {
        (**self).read(buf)
    }

    #[inline]
    fn read_to_end(&mut self, buf: &mut Vec<u8>) -> Result<usize> {
        (**self).read_to_end(buf)
    }

    #[inline]
    fn read_to_string(&mut self, buf: &mut String) -> Result<usize> {
        (**self).read_to_string(buf)
    }

    #[inline]
    fn read_exact(&mut self, buf: &mut [u8]) -> Result<()> {
        (**self).read_exact(buf)
    }
}

/// An iterator over `u8` values of a reader.
#[derive(Debug)]
pub struct Bytes<R: Read> {
    inner: R,
}

impl<R: Read> Iterator for Bytes<R> {
    type Item = Result<u8>;

    fn next(&mut self) -> Option<Result<u8>> {
        let mut byte = 0;
        loop {
            return match self.inner.read(core::slice::from_mut(&mut byte)) {
                Ok(0) => None,
                Ok(..) => Some(Ok(byte)),
                Err(ref e) if e.kind() == ErrorKind::Interrupted => continue,
                Err(e) => Some(Err(e)),
            };
        }
    }
}

impl Read for &[u8] {
    #[inline]
    fn read(&mut self, buf: &mut [u8]) -> Result<usize> {
        let amt = cmp::min(buf.len(), self.len());
        let (a, b) = self.split_at(amt);

        // First check if the amount of bytes we want to read is small:
        // `copy_from_slice` will generally expand to a call to `memcpy`, and
        // for a single byte the overhead is significant.
        if amt == 1 {
            buf[0] = a[0];
        } else {
            buf[..amt].copy_from_slice(a);
        }

        *self = b;
        Ok(amt)
    }

    #[inline]
    fn read_exact(&mut self, buf: &mut [u8]) -> Result<()> {
        if buf.len() > self.len() {
            return Err(Error::new(
                ErrorKind::UnexpectedEof,
                "failed to fill whole buffer",
            ));
        }
        let (a, b) = self.split_at(buf.len());

        // First check if the amount of bytes we want to read is small:
        // `copy_from_slice` will generally expand to a call to `memcpy`, and
        // for a single byte the overhead is significant.
        if buf.len() == 1 {
            buf[0] = a[0];
        } else {
            buf.copy_from_slice(a);
        }

        *self = b;
        Ok(())
    }

    #[inline]
    fn read_to_end(&mut self, buf: &mut Vec<u8>) -> Result<usize> {
        buf.extend_from_slice(self);
        let len = self.len();
        *self = &self[len..];
        Ok(len)
    }
}

/// Enumeration of possible methods to seek within an I/O object.
#[derive(Debug, Clone, Copy)]
pub enum SeekFrom {
    /// Sets the offset to the provided number of bytes.
    Start(u64),
    /// Sets the offset to the size of this object plus the specified number of
    /// bytes.
    End(i64),
    /// Sets the offset to the current position plus the specified number of
    /// bytes.
    Current(i64),
}

/// The `Seek` trait provides a cursor which can be moved within a stream of
/// bytes.
pub trait Seek {
    /// Seek to an offset, in bytes, in a stream.
    fn seek(&mut self, pos: SeekFrom) -> Result<u64>;
    /// Returns the current seek position from the start of the stream.
    ///
    /// This is equivalent to `self.seek(SeekFrom::Current(0))`.
    fn stream_position(&mut self) -> Result<u64> {
        self.seek(SeekFrom::Current(0))
    }
}

impl<S: Seek + ?Sized> Seek for &mut S {
    #[inline]
    fn seek(&mut self, pos: SeekFrom) -> Result<u64> {
        (**self).seek(pos)
    }
}

/// A trait for objects which are byte-oriented sinks.
pub trait Write {
    /// Write a buffer into this writer, returning how many bytes were written.
    fn write(&mut self, buf: &[u8]) -> Result<usize>;

    /// Flush this output stream, ensuring that all intermediately buffered
    /// contents reach their destination.
    fn flush(&mut self) -> Result<()>;

    /// Attempts to write an entire buffer into this writer.
    fn write_all(&mut self, mut buf: &[u8]) -> Result<()> {
        while !buf.is_empty() {
            match self.write(buf) {
                Ok(0) => {
                    return Err(Error::new(
                        ErrorKind::WriteZero,
                        "failed to write whole buffer",
                    ));
                }
                Ok(n) => buf = &buf[n..],
                Err(ref e) if e.kind() == ErrorKind::Interrupted => {}
                Err(e) => return Err(e),
            }
        }
        Ok(())
    }

    /// Writes a formatted string into this writer, returning any error
    /// encountered.
    fn write_fmt(&mut self, fmt: fmt::Arguments<'_>) -> Result<()> {
        // Create a shim which translates a Write to a fmt::Write and saves
        // off I/O errors. instead of discarding them
        struct Adaptor<'a, T: ?Sized> {
            inner: &'a mut T,
            error: Result<()>,
        }

        impl<T: Write + ?Sized> fmt::Write for Adaptor<'_, T> {
            fn write_str(&mut self, s: &str) -> fmt::Result {
                match self.inner.write_all(s.as_bytes()) {
                    Ok(()) => Ok(()),
                    Err(e) => {
                        self.error = Err(e);
                        Err(fmt::Error)
                    }
                }
            }
        }

        let mut output = Adaptor {
            inner: self,
            error: Ok(()),
        };
        match fmt::write(&mut output, fmt) {
            Ok(()) => Ok(()),
            Err(..) => {
                // check if the error came from the underlying `Write` or not
                if output.error.is_err() {
                    output.error
                } else {
                    Err(Error::new(ErrorKind::Other, "formatter error"))
                }
            }
        }
    }

    /// Creates a "by reference" adaptor for this instance of `Write`.
    fn by_ref(&mut self) -> &mut Self
    where
        Self: Sized,
    {
        self
    }
}

impl Write for &mut [u8] {
    #[inline]
    fn write(&mut self, data: &[u8]) -> Result<usize> {
        let amt = cmp::min(data.len(), self.len());
        let (a, b) = mem::take(self).split_at_mut(amt);
        a.copy_from_slice(&data[..amt]);
        *self = b;
        Ok(amt)
    }

    #[inline]
    fn write_all(&mut self, data: &[u8]) -> Result<()> {
        if self.write(data)? == data.len() {
            Ok(())
        } else {
            Err(Error::new(
                ErrorKind::WriteZero,
                &"failed to write whole buffer",
            ))
        }
    }

    #[inline]
    fn flush(&mut self) -> Result<()> {
        Ok(())
    }
}

impl Write for Vec<u8> {
    #[inline]
    fn write(&mut self, buf: &[u8]) -> Result<usize> {
        self.extend_from_slice(buf);
        Ok(buf.len())
    }

    #[inline]
    fn write_all(&mut self, buf: &[u8]) -> Result<()> {
        self.extend_from_slice(buf);
        Ok(())
    }

    #[inline]
    fn flush(&mut self) -> Result<()> {
        Ok(())
    }
}

impl<W: Write + ?Sized> Write for &mut W {
    #[inline]
    fn write(&mut self, buf: &[u8]) -> Result<usize> {
        (**self).write(buf)
    }

    #[inline]
    fn flush(&mut self) -> Result<()> {
        (**self).flush()
    }

    #[inline]
    fn write_all(&mut self, buf: &[u8]) -> Result<()> {
        (**self).write_all(buf)
    }
}
