//! Type definitions for byte order handling.

use crate::BinResult;
#[cfg(not(feature = "std"))]
use alloc::boxed::Box;
pub use Endian::{Big as BE, Little as LE};

/// Defines the order of bytes in a multi-byte type.
#[derive(Clone, Copy, Debug, Eq, PartialEq)]
pub enum Endian {
    /// The most significant byte is stored first.
    Big,
    /// The least significant byte is stored first.
    Little,
}

impl Endian {
    #[cfg(target_endian = "big")]
    /// The target platform’s native endianness.
    pub const NATIVE: Self = Endian::Big;
    #[cfg(target_endian = "little")]
    /// The target platform’s native endianness.
    pub const NATIVE: Self = Endian::Little;

    /// Converts a byte array containing a UTF-16 [byte order mark] into an
    /// `Endian` value.
    ///
    /// [byte order mark]: https://en.wikipedia.org/wiki/Byte_order_mark
    ///
    /// # Errors
    ///
    /// Returns an error if the input does not contain a byte order mark.
    pub fn from_utf16_bom_bytes(bom: [u8; 2]) -> BinResult<Self> {
        match u16::from_le_bytes(bom) {
            BOM => Ok(Self::Little),
            REVERSE_BOM => Ok(Self::Big),
            _ => Err(crate::Error::BadMagic {
                pos: u64::MAX,
                found: Box::new("Invalid UTF-16 BOM"),
            }),
        }
    }

    /// Converts an `Endian` value into an array containing a UTF-16
    /// [byte order mark](https://en.wikipedia.org/wiki/Byte_order_mark).
    #[must_use]
    pub fn into_utf16_bom_bytes(self) -> [u8; 2] {
        match self {
            Self::Little => u16::to_le_bytes(BOM),
            Self::Big => u16::to_be_bytes(BOM),
        }
    }
}

impl core::fmt::Display for Endian {
    fn fmt(&self, f: &mut core::fmt::Formatter<'_>) -> core::fmt::Result {
        match self {
            Self::Big => write!(f, "Big"),
            Self::Little => write!(f, "Little"),
        }
    }
}

const BOM: u16 = 0xFEFF;
const REVERSE_BOM: u16 = 0xFFFE;
