//! Traits that expose information about the way types are parsed or serialised.
//!
//! The traits in this module *describe* how a [`BinRead`] or [`BinWrite`]
//! implementation works; they do not *control* the implementation. They are
//! automatically implemented for derived `BinRead` or `BinWrite`
//! implementations, but can also be manually implemented if needed for types
//! that manually implement `BinRead` and `BinWrite`.
//!
//! [`BinRead`]: crate::BinRead
//! [`BinWrite`]: crate::BinWrite

use crate::Endian;
#[cfg(not(feature = "std"))]
use alloc::{boxed::Box, vec::Vec};
use core::marker::PhantomData;

/// Types that require a magic number when parsed.
///
/// This trait is automatically defined on derived types with a
/// [magic directive](crate::docs::attribute#magic).
pub trait ReadMagic {
    /// The type of the magic number.
    type MagicType;

    /// The magic number.
    const MAGIC: Self::MagicType;
}

/// Types that write a magic number when serialised.
///
/// This trait is automatically defined on derived types with a
/// [magic directive](crate::docs::attribute#magic).
pub trait WriteMagic {
    /// The type of the magic number.
    type MagicType;

    /// The magic number.
    const MAGIC: Self::MagicType;
}

/// Types with explicit read endianness.
///
/// This trait is automatically defined on derived types with a
/// [byte order directive](crate::docs::attribute#byte-order).
pub trait ReadEndian {
    /// The endianness of the type.
    const ENDIAN: EndianKind;
}

/// Types with explicit write endianness.
///
/// This trait is automatically defined on derived types with a
/// [byte order directive](crate::docs::attribute#byte-order).
pub trait WriteEndian {
    /// The endianness of the type.
    const ENDIAN: EndianKind;
}

/// The kind of endianness used by a type.
#[derive(Clone, Copy, Debug, Eq, PartialEq)]
pub enum EndianKind {
    /// The type has no endianness at all.
    None,
    /// The type uses a fixed endianness.
    Endian(Endian),
    /// The type uses an endianness that is dynamically determined at runtime
    /// from an expression.
    Runtime,
    /// The type uses a heterogenous mix of endianness.
    Mixed,
}

impl EndianKind {
    /// Returns the fixed endianness of the type, if one exists.
    #[must_use]
    pub fn endian(self) -> Option<Endian> {
        match self {
            EndianKind::None | EndianKind::Runtime | EndianKind::Mixed => None,
            EndianKind::Endian(endian) => Some(endian),
        }
    }
}

macro_rules! endian_impl {
    ($($($Ty:ty)+ => $kind:expr),+ $(,)?) => {$($(
        impl ReadEndian for $Ty {
            const ENDIAN: EndianKind = $kind;
        }

        impl WriteEndian for $Ty {
            const ENDIAN: EndianKind = $kind;
        }
    )+)+}
}

endian_impl!(() i8 u8 core::num::NonZeroU8 core::num::NonZeroI8 crate::strings::NullString => EndianKind::None);

impl<T: ReadEndian + ?Sized> ReadEndian for Box<T> {
    const ENDIAN: EndianKind = <T as ReadEndian>::ENDIAN;
}

impl<T: WriteEndian + ?Sized> WriteEndian for Box<T> {
    const ENDIAN: EndianKind = <T as WriteEndian>::ENDIAN;
}

impl<T: ReadEndian> ReadEndian for [T] {
    const ENDIAN: EndianKind = <T as ReadEndian>::ENDIAN;
}

impl<T: WriteEndian> WriteEndian for [T] {
    const ENDIAN: EndianKind = <T as WriteEndian>::ENDIAN;
}

impl<T: ReadEndian, const N: usize> ReadEndian for [T; N] {
    const ENDIAN: EndianKind = <T as ReadEndian>::ENDIAN;
}

impl<T: WriteEndian, const N: usize> WriteEndian for [T; N] {
    const ENDIAN: EndianKind = <T as WriteEndian>::ENDIAN;
}

macro_rules! endian_generic_impl {
    ($($Ty:ident)+) => {$(
        impl<T: ReadEndian> ReadEndian for $Ty<T> {
            const ENDIAN: EndianKind = <T as ReadEndian>::ENDIAN;
        }

        impl<T: WriteEndian> WriteEndian for $Ty<T> {
            const ENDIAN: EndianKind = <T as WriteEndian>::ENDIAN;
        }
    )+}
}

endian_generic_impl!(Option Vec PhantomData);

macro_rules! endian_tuple_impl {
    ($type1:ident $(, $types:ident)*) => {
        #[allow(non_camel_case_types)]
        impl<$type1: ReadEndian, $($types: ReadEndian),*> ReadEndian for ($type1, $($types),*) {
            const ENDIAN: EndianKind = EndianKind::Mixed;
        }

        #[allow(non_camel_case_types)]
        impl<$type1: WriteEndian, $($types: WriteEndian),*> WriteEndian for ($type1, $($types),*) {
            const ENDIAN: EndianKind = EndianKind::Mixed;
        }

        endian_tuple_impl!($($types),*);
    };

    () => {};
}

endian_tuple_impl!(
    b1, b2, b3, b4, b5, b6, b7, b8, b9, b10, b11, b12, b13, b14, b15, b16, b17, b18, b19, b20, b21,
    b22, b23, b24, b25, b26, b27, b28, b29, b30, b31, b32
);
