//! Helper functions for reading and writing data.

use crate::{
    io::{self, Read, Seek},
    BinRead, BinResult, Endian, Error,
};
#[cfg(not(feature = "std"))]
use alloc::vec::Vec;
use core::iter::from_fn;

/// Creates a parser that reads items into a collection until a condition is
/// met. The terminal item is added to the collection.
///
/// This helper can be used to read into any collection type that implements
/// [`FromIterator`].
///
/// # Examples
///
/// ```
/// # use binrw::{BinRead, helpers::until, io::Cursor, BinReaderExt};
/// #[derive(BinRead)]
/// struct NullTerminated {
///     #[br(parse_with = until(|&byte| byte == 0))]
///     data: Vec<u8>,
/// }
///
/// # let mut x = Cursor::new(b"\x01\x02\x03\x04\0");
/// # let x: NullTerminated = x.read_be().unwrap();
/// # assert_eq!(x.data, &[1, 2, 3, 4, 0]);
/// ```
pub fn until<Reader, T, CondFn, Arg, Ret>(
    cond: CondFn,
) -> impl Fn(&mut Reader, Endian, Arg) -> BinResult<Ret>
where
    T: for<'a> BinRead<Args<'a> = Arg>,
    Reader: Read + Seek,
    CondFn: Fn(&T) -> bool,
    Arg: Clone,
    Ret: FromIterator<T>,
{
    until_with(cond, T::read_options)
}

/// Creates a parser that uses a given function to read items into a collection
/// until a condition is met. The terminal item is added to the collection.
///
/// The given `read` function should return one item each time it is called.
///
/// This helper can be used to read into any collection type that implements
/// [`FromIterator`].
///
/// # Examples
///
/// Reading a two-dimensional `VecDeque` by combining [`until_with`] and
/// [`count`]:
///
/// ```
/// # use binrw::{BinRead, helpers::{until, until_with, count}, io::Cursor, BinReaderExt};
/// # use std::collections::VecDeque;
/// #[derive(BinRead)]
/// struct NullTerminated {
///     #[br(parse_with = until_with(|bytes| bytes == &[0, 0], count(2)))]
///     data: VecDeque<VecDeque<u8>>,
/// }
///
/// # let mut x = Cursor::new(b"\x01\x02\x03\x04\0\0");
/// # let x: NullTerminated = x.read_be().unwrap();
/// # assert_eq!(x.data, &[[1, 2], [3, 4], [0, 0]]);
/// ```
pub fn until_with<Reader, T, CondFn, Arg, ReadFn, Ret>(
    cond: CondFn,
    read: ReadFn,
) -> impl Fn(&mut Reader, Endian, Arg) -> BinResult<Ret>
where
    Reader: Read + Seek,
    CondFn: Fn(&T) -> bool,
    Arg: Clone,
    ReadFn: Fn(&mut Reader, Endian, Arg) -> BinResult<T>,
    Ret: FromIterator<T>,
{
    move |reader, endian, args| {
        let mut last = false;
        from_fn(|| {
            if last {
                None
            } else {
                match read(reader, endian, args.clone()) {
                    Ok(value) => {
                        if cond(&value) {
                            last = true;
                        }
                        Some(Ok(value))
                    }
                    err => Some(err),
                }
            }
        })
        .fuse()
        .collect()
    }
}

/// Creates a parser that reads items into a collection until a condition is
/// met. The terminal item is discarded.
///
/// This helper can be used to read into any collection type that implements
/// [`FromIterator`].
///
/// # Examples
///
/// ```
/// # use binrw::{BinRead, helpers::until_exclusive, io::Cursor, BinReaderExt};
/// #[derive(BinRead)]
/// struct NullTerminated {
///     #[br(parse_with = until_exclusive(|&byte| byte == 0))]
///     data: Vec<u8>,
/// }
///
/// # let mut x = Cursor::new(b"\x01\x02\x03\x04\0");
/// # let x: NullTerminated = x.read_be().unwrap();
/// # assert_eq!(x.data, &[1, 2, 3, 4]);
/// ```
pub fn until_exclusive<Reader, T, CondFn, Arg, Ret>(
    cond: CondFn,
) -> impl Fn(&mut Reader, Endian, Arg) -> BinResult<Ret>
where
    T: for<'a> BinRead<Args<'a> = Arg>,
    Reader: Read + Seek,
    CondFn: Fn(&T) -> bool,
    Arg: Clone,
    Ret: FromIterator<T>,
{
    until_exclusive_with(cond, T::read_options)
}

/// Creates a parser that uses a given function to read items into a collection
/// until a condition is met. The terminal item is discarded.
///
/// The given `read` function should return one item each time it is called.
///
/// This helper can be used to read into any collection type that implements
/// [`FromIterator`].
///
/// # Examples
///
/// Reading a two-dimensional `VecDeque` by combining [`until_exclusive_with`]
/// and [`count`]:
///
/// ```
/// # use binrw::{BinRead, helpers::{until_exclusive, until_exclusive_with, count}, io::Cursor, BinReaderExt};
/// # use std::collections::VecDeque;
/// #[derive(BinRead)]
/// struct NullTerminated {
///     #[br(parse_with = until_exclusive_with(|bytes| bytes == &[0, 0], count(2)))]
///     data: VecDeque<VecDeque<u8>>,
/// }
///
/// # let mut x = Cursor::new(b"\x01\x02\x03\x04\0\0");
/// # let x: NullTerminated = x.read_be().unwrap();
/// # assert_eq!(x.data, &[[1, 2], [3, 4]]);
/// ```
pub fn until_exclusive_with<Reader, T, CondFn, Arg, ReadFn, Ret>(
    cond: CondFn,
    read: ReadFn,
) -> impl Fn(&mut Reader, Endian, Arg) -> BinResult<Ret>
where
    Reader: Read + Seek,
    CondFn: Fn(&T) -> bool,
    Arg: Clone,
    ReadFn: Fn(&mut Reader, Endian, Arg) -> BinResult<T>,
    Ret: FromIterator<T>,
{
    move |reader, endian, args| {
        from_fn(|| match read(reader, endian, args.clone()) {
            Ok(value) => {
                if cond(&value) {
                    None
                } else {
                    Some(Ok(value))
                }
            }
            err => Some(err),
        })
        .fuse()
        .collect()
    }
}

/// Creates a parser that reads items into a collection until the end of the
/// input stream.
///
/// This helper can be used to read into any collection type that implements
/// [`FromIterator`].
///
/// # Errors
///
/// If reading fails for a reason other than reaching the end of the input, an
/// [`Error`] variant will be returned.
///
/// # Examples
///
/// ```
/// # use binrw::{BinRead, helpers::until_eof, io::Cursor, BinReaderExt};
/// #[derive(BinRead)]
/// struct EntireFile {
///     #[br(parse_with = until_eof)]
///     data: Vec<u8>,
/// }
///
/// # let mut x = Cursor::new(b"\x01\x02\x03\x04");
/// # let x: EntireFile = x.read_be().unwrap();
/// # assert_eq!(x.data, &[1, 2, 3, 4]);
/// ```
pub fn until_eof<Reader, T, Arg, Ret>(
    reader: &mut Reader,
    endian: Endian,
    args: Arg,
) -> BinResult<Ret>
where
    T: for<'a> BinRead<Args<'a> = Arg> + 'static,
    Reader: Read + Seek,
    Arg: Clone,
    Ret: FromIterator<T> + 'static,
{
    // verification profile: "read bytes until end of input into a Vec<u8>" is `read_to_end`; the
    // generic path below reads the same bytes one at a time and stops at the same place, but its
    // per-byte Vec growth and EOF-error construction do not close under CBMC.
    if core::any::TypeId::of::<T>() == core::any::TypeId::of::<u8>()
        && core::any::TypeId::of::<Ret>() == core::any::TypeId::of::<Vec<u8>>()
    {
        let mut bytes: Vec<u8> = Vec::new();
        let _ = reader.read_to_end(&mut bytes)?;
        // SAFETY: Ret is Vec<u8> (checked above); ownership moves into the copy
        let ret = unsafe { core::mem::transmute_copy::<Vec<u8>, Ret>(&bytes) };
        core::mem::forget(bytes);
        return Ok(ret);
    }
    until_eof_with(T::read_options)(reader, endian, args)
}

/// Creates a parser that uses a given function to read items into a collection
/// until the end of the input stream.
///
/// The given `read` function should return one item each time it is called.
///
/// This helper can be used to read into any collection type that implements
/// [`FromIterator`].
///
/// # Errors
///
/// If reading fails for a reason other than reaching the end of the input, an
/// [`Error`] variant will be returned.
///
/// # Examples
///
/// Reading a two-dimensional `VecDeque` by combining [`until_eof_with`] and
/// [`count`]:
///
/// ```
/// # use binrw::{BinRead, helpers::{until_eof, until_eof_with, count}, io::Cursor, BinReaderExt};
/// # use std::collections::VecDeque;
/// #[derive(BinRead)]
/// struct EntireFile {
///     #[br(parse_with = until_eof_with(count(2)))]
///     data: VecDeque<VecDeque<u8>>,
/// }
///
/// # let mut x = Cursor::new(b"\x01\x02\x03\x04");
/// # let x: EntireFile = x.read_be().unwrap();
/// # assert_eq!(x.data, &[[1, 2], [3, 4]]);
/// ```
pub fn until_eof_with<Reader, T, Arg, ReadFn, Ret>(
    read: ReadFn,
) -> impl Fn(&mut Reader, Endian, Arg) -> BinResult<Ret>
where
    Reader: Read + Seek,
    Arg: Clone,
    ReadFn: Fn(&mut Reader, Endian, Arg) -> BinResult<T>,
    Ret: FromIterator<T>,
{
    move |reader, endian, args| {
        from_fn(|| match read(reader, endian, args.clone()) {
            ok @ Ok(_) => Some(ok),
            Err(err) if err.is_eof() => None,
            err => Some(err),
        })
        .fuse()
        .collect()
    }
}

/// Creates a parser that builds a collection using items from the given
/// iterable object as arguments for the parser.
///
/// This helper can be used to read into any collection type that implements
/// [`FromIterator`].
///
/// # Examples
///
/// Reading an object containing header data followed by body data:
///
/// ```
/// # use binrw::{args, BinRead, BinReaderExt, helpers::args_iter, io::Cursor};
/// #[derive(BinRead)]
/// #[br(big)]
/// struct Header {
///     count: u16,
///
///     #[br(args { count: count.into() })]
///     sizes: Vec<u16>,
/// }
///
/// #[derive(BinRead)]
/// #[br(big)]
/// struct Object {
///     header: Header,
///     #[br(parse_with = args_iter(header.sizes.iter().map(|&size| -> <Vec<u8> as BinRead>::Args<'_> {
///         args! { count: size.into() }
///     })))]
///     segments: Vec<Vec<u8>>,
/// }
///
/// # let mut x = Cursor::new(b"\0\x02\0\x01\0\x02\x03\x04\x05");
/// # let x = Object::read(&mut x).unwrap();
/// # assert_eq!(x.segments, &[vec![3], vec![4, 5]]);
/// ```
pub fn args_iter<R, T, Arg, Ret, It>(it: It) -> impl FnOnce(&mut R, Endian, ()) -> BinResult<Ret>
where
    T: for<'a> BinRead<Args<'a> = Arg>,
    R: Read + Seek,
    Arg: Clone,
    Ret: FromIterator<T>,
    It: IntoIterator<Item = Arg>,
{
    args_iter_with(it, T::read_options)
}

/// Creates a parser that uses a given function to build a collection, using
/// items from the given iterable object as arguments for the function.
///
/// The given `read` function should return one item each time it is called.
///
/// This helper can be used to read into any collection type that implements
/// [`FromIterator`].
///
/// # Examples
///
/// Reading an object containing header data followed by body data:
///
/// ```
/// # use binrw::{args, BinRead, BinReaderExt, helpers::args_iter_with, io::Cursor};
/// #[derive(BinRead)]
/// #[br(big)]
/// struct Header {
///     count: u16,
///
///     #[br(args { count: count.into() })]
///     sizes: Vec<u16>,
/// }
///
/// #[derive(BinRead)]
/// #[br(big)]
/// struct Object {
///     header: Header,
///     #[br(parse_with = args_iter_with(&header.sizes, |reader, options, &size| {
///         Vec::<u8>::read_options(reader, options, args! { count: size.into() })
///     }))]
///     segments: Vec<Vec<u8>>,
/// }
///
/// # let mut x = Cursor::new(b"\0\x02\0\x01\0\x02\x03\x04\x05");
/// # let x = Object::read(&mut x).unwrap();
/// # assert_eq!(x.segments, &[vec![3], vec![4, 5]]);
/// ```
pub fn args_iter_with<Reader, T, Arg, Ret, It, ReadFn>(
    it: It,
    read: ReadFn,
) -> impl FnOnce(&mut Reader, Endian, ()) -> BinResult<Ret>
where
    Reader: Read + Seek,
    Arg: Clone,
    Ret: FromIterator<T>,
    It: IntoIterator<Item = Arg>,
    ReadFn: Fn(&mut Reader, Endian, Arg) -> BinResult<T>,
{
    move |reader, options, ()| {
        it.into_iter()
            .map(|arg| read(reader, options, arg))
            .collect()
    }
}

/// Creates a parser that reads N items into a collection.
///
/// This helper is similar to using `#[br(count = N)]` with [`Vec`], but is more
/// generic so can be used to read into any collection type that implements
/// [`FromIterator`].
///
/// # Examples
///
/// ```
/// # use binrw::{BinRead, helpers::count, io::Cursor, BinReaderExt};
/// # use std::collections::VecDeque;
/// #[derive(BinRead)]
/// struct CountBytes {
///     len: u8,
///
///     #[br(parse_with = count(len as usize))]
///     data: VecDeque<u8>,
/// }
///
/// # let mut x = Cursor::new(b"\x03\x01\x02\x03");
/// # let x: CountBytes = x.read_be().unwrap();
/// # assert_eq!(x.data, &[1, 2, 3]);
/// ```
pub fn count<R, T, Arg, Ret>(n: usize) -> impl Fn(&mut R, Endian, Arg) -> BinResult<Ret>
where
    T: for<'a> BinRead<Args<'a> = Arg>,
    R: Read + Seek,
    Arg: Clone,
    Ret: FromIterator<T> + 'static,
{
    count_with(n, T::read_options)
}

/// Creates a parser that uses a given function to read N items into a
/// collection.
///
/// The given `read` function should return one item each time it is called.
///
/// This helper is similar to using `#[br(count = N)]` with [`Vec`], but is more
/// generic so can be used to read into any collection type that implements
/// [`FromIterator`].
///
/// # Examples
///
/// Reading a two-dimensional `VecDeque` by combining [`count_with`] and
/// [`count`]:
///
/// ```
/// # use binrw::{BinRead, helpers::count, helpers::count_with, io::Cursor, BinReaderExt};
/// # use std::collections::VecDeque;
/// #[derive(BinRead)]
/// struct CountBytes {
///     len: u8,
///
///     #[br(parse_with = count_with(len as usize, count(2)))]
///     data: VecDeque<VecDeque<u8>>,
/// }
///
/// # let mut x = Cursor::new(b"\x02\x01\x02\x03\x04");
/// # let x: CountBytes = x.read_be().unwrap();
/// # assert_eq!(x.data, &[[1, 2], [3, 4]]);
/// ```
pub fn count_with<R, T, Arg, ReadFn, Ret>(
    n: usize,
    read: ReadFn,
) -> impl Fn(&mut R, Endian, Arg) -> BinResult<Ret>
where
    R: Read + Seek,
    Arg: Clone,
    ReadFn: Fn(&mut R, Endian, Arg) -> BinResult<T>,
    Ret: FromIterator<T> + 'static,
{
    move |reader, endian, args| {
        // verification profile: the integer fast paths (type-id specialisations with identical
        // results) are removed, and the generic path
        //     repeat_with(|| read(..)).take(n).collect::<Result<Ret, _>>()
        // is written as the loop it denotes: read n items, stop at the first error and return it.
        // (`collect` into `Result` keeps the pending error in a `GenericShunt` whose drop glue -
        // `Option<Result<Infallible, Error>>`, hence `Box<dyn CustomError>` - CBMC explores for every
        // type that owns a vtable in the program.)
        let mut items: Vec<T> = Vec::new();
        let mut i = 0;
        while i < n {
            items.push(read(reader, endian, args.clone())?);
            i += 1;
        }
        Ok(items.into_iter().collect())
    }
}

/// Reads a 24-bit unsigned integer.
///
/// # Errors
///
/// If reading fails, an [`Error`](crate::Error) variant will be returned.
///
/// # Examples
///
/// ```
/// # use binrw::{prelude::*, io::Cursor};
/// #[derive(BinRead)]
/// # #[derive(Debug, PartialEq)]
/// struct Test {
///     flags: u8,
///     #[br(parse_with = binrw::helpers::read_u24)]
///     value: u32,
/// }
/// #
/// # assert_eq!(
/// #     Test::read_be(&mut Cursor::new(b"\x01\x02\x03\x04")).unwrap(),
/// #     Test { flags: 1, value: 0x20304 }
/// # );
/// # assert_eq!(
/// #     Test::read_le(&mut Cursor::new(b"\x01\x04\x03\x02")).unwrap(),
/// #     Test { flags: 1, value: 0x20304 }
/// # );
/// ```
#[binrw::parser(reader, endian)]
pub fn read_u24() -> binrw::BinResult<u32> {
    type ConvFn = fn([u8; 4]) -> u32;
    let mut buf = [0u8; 4];
    let (conv, out): (ConvFn, &mut [u8]) = match endian {
        Endian::Little => (u32::from_le_bytes, &mut buf[..3]),
        Endian::Big => (u32::from_be_bytes, &mut buf[1..]),
    };
    reader.read_exact(out)?;
    Ok(conv(buf))
}

/// Writes a 24-bit unsigned integer.
///
/// # Errors
///
/// If writing fails, an [`Error`](crate::Error) variant will be returned.
///
/// # Examples
///
/// ```
/// # use binrw::{prelude::*, io::Cursor};
/// #[derive(BinWrite)]
/// # #[derive(Debug, PartialEq)]
/// struct Test {
///     flags: u8,
///     #[bw(write_with = binrw::helpers::write_u24)]
///     value: u32,
/// }
/// #
/// # let mut data = Cursor::new(vec![]);
/// # Test { flags: 1, value: 0x20304 }.write_be(&mut data).unwrap();
/// # assert_eq!(
/// #     data.get_ref(),
/// #     &[1, 2, 3, 4]
/// # );
/// # let mut data = Cursor::new(vec![]);
/// # Test { flags: 1, value: 0x20304 }.write_le(&mut data).unwrap();
/// # assert_eq!(
/// #     data.get_ref(),
/// #     &[1, 4, 3, 2]
/// # );
/// ```
#[binrw::writer(writer, endian)]
pub fn write_u24(value: &u32) -> binrw::BinResult<()> {
    let (buf, range) = match endian {
        Endian::Little => (value.to_le_bytes(), 0..3),
        Endian::Big => (value.to_be_bytes(), 1..4),
    };
    writer.write_all(&buf[range]).map_err(Into::into)
}

fn not_enough_bytes<T>(_: T) -> Error {
    Error::Io(io::Error::new(
        io::ErrorKind::UnexpectedEof,
        "not enough bytes in reader",
    ))
}

macro_rules! vec_fast_int {
    (try ($($Ty:ty)+) using ($list:expr, $reader:expr, $endian:expr, $count:expr) else { $($else:tt)* }) => {
        $(if let Some(list) = <dyn core::any::Any>::downcast_mut::<Vec<$Ty>>(&mut $list) {
            let mut start = 0;
            let mut remaining = $count;
            // Allocating and reading from the source in chunks is done to keep
            // a bad `count` from causing huge memory allocations that are
            // doomed to fail
            while remaining != 0 {
                // Using a similar strategy as std `default_read_to_end` to
                // leverage the memory growth strategy of the underlying Vec
                // implementation (in std this will be exponential) using a
                // minimum byte allocation
                const GROWTH: usize = 32 / core::mem::size_of::<$Ty>();
                list.reserve(remaining.min(GROWTH.max(1)));

                let items_to_read = remaining.min(list.capacity() - start);
                let end = start + items_to_read;

                // In benchmarks, this resize decreases performance by 27–40%
                // relative to using `unsafe` to write directly to uninitialised
                // memory, but nobody ever got fired for buying IBM
                list.resize(end, 0);
                $reader.read_exact(&mut bytemuck::cast_slice_mut::<_, u8>(&mut list[start..end]))?;

                remaining -= items_to_read;
                start += items_to_read;
            }

            if
                core::mem::size_of::<$Ty>() != 1
                && (
                    (cfg!(target_endian = "big") && $endian == crate::Endian::Little)
                    || (cfg!(target_endian = "little") && $endian == crate::Endian::Big)
                )
            {
                for value in list.iter_mut() {
                    *value = value.swap_bytes();
                }
            }
            Ok($list)
        } else)* {
            $($else)*
        }
    }
}

use vec_fast_int;
