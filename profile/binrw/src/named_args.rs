//! Types and macros for generating named arguments builders.

use core::marker::PhantomData;

/// A convenience macro for constructing
/// [named arguments](crate::docs::attribute#named-arguments).
///
/// This macro uses the [`builder()`](NamedArgs::builder) function of a
/// [named arguments type](NamedArgs), and can only be used in positions
/// where the type can be inferred by the compiler (i.e. as a function argument
/// or an assignment to a variable with an explicit type).
///
/// # Examples
///
/// ```
/// use binrw::BinRead;
/// # use binrw::io::Cursor;
///
/// #[derive(BinRead)]
/// #[br(import { a: i32, b: i32 })]
/// struct Foo;
///
/// let mut reader = Cursor::new(b"");
/// let a = 1;
/// Foo::read_args(&mut reader, binrw::args! {
///     a,
///     b: { a * 2 },
/// }).unwrap();
/// ```
#[macro_export]
macro_rules! args {
    (@ifn { $value:expr } $name:ident) => { $value };
    (@ifn {} $name:ident) => { $name };
    ($($name:ident $(: $value:expr)?),* $(,)?) => {
        {
            // I'll use Ret to represent the type of the block
            // token representing the type of the block. we request that the compiler infer it.
            let args_ty = ::core::marker::PhantomData::<_>;
            if false {
                // this statement will never be run, but will be used for type resolution.
                // since this helper is of PhantomData<T> -> T,
                // and the compiler knows that the type Ret should be returned,
                // it infers that args_ty should be of type PhantomData<Ret>.
                $crate::__private::passthrough_helper(args_ty)
            } else {
                // we now pass the PhantomData<Ret> to a helper of PhantomData<T> -> T::Builder
                // to obtain a builder for the type of the block.
                let builder = $crate::__private::builder_helper(args_ty);

                $(let builder = builder.$name($crate::args!(@ifn { $($value)? } $name));)*

                // since the builder returns the type that we used to obtain the builder,
                // the type unifies across the if expression
                builder.finalize()
            }
        }
    };
}

/// The `NamedArgs` trait allows
/// [named arguments](crate::docs::attribute#named-arguments) objects
/// to be constructed using a builder that checks for correctness at compile
/// time.
///
/// See [`#[derive(NamedArgs)]`](derive@crate::NamedArgs) for information on deriving
/// custom named arguments types.
pub trait NamedArgs {
    /// The builder type for this type.
    type Builder;

    /// Creates a new builder for this type.
    fn builder() -> Self::Builder;
}

#[doc(hidden)]
pub struct Satisfied;

#[doc(hidden)]
pub struct Optional;

#[doc(hidden)]
pub struct Needed;

// TODO: seal?
/// Indicates that a requirement for a typed builder has been met, either by
/// the user providing one, or by a default being given.
#[doc(hidden)]
pub trait SatisfiedOrOptional {}

impl SatisfiedOrOptional for Satisfied {}
impl SatisfiedOrOptional for Optional {}

#[doc(hidden)]
#[cfg_attr(coverage_nightly, coverage(off))]
#[must_use]
pub fn passthrough_helper<T>(_a: PhantomData<T>) -> T {
    panic!("This is a type system hack and should never be called!");
}

#[doc(hidden)]
#[must_use]
pub fn builder_helper<T: NamedArgs>(_: PhantomData<T>) -> T::Builder {
    <T as NamedArgs>::builder()
}
