// Verification profile: backtrace support reduced to the data types that the
// derive output mentions. No error ever carries a backtrace.
use super::CustomError;
use alloc::borrow::Cow;
#[cfg(not(feature = "std"))]
use alloc::boxed::Box;

/// A single frame of (unused) backtrace context.
#[non_exhaustive]
#[derive(Debug)]
pub enum BacktraceFrame {
    /// Full frame.
    Full {
        /// message
        message: Cow<'static, str>,
        /// file
        file: &'static str,
        /// line
        line: u32,
        /// code
        code: Option<&'static str>,
    },
    /// Message only.
    Message(Cow<'static, str>),
    /// Custom error.
    Custom(Box<dyn CustomError>),
}

impl From<&'static str> for BacktraceFrame {
    fn from(s: &'static str) -> Self { Self::Message(Cow::Borrowed(s)) }
}
