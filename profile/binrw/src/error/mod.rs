//! Functions and type definitions for handling errors.

mod backtrace;

use crate::{io, BinResult};
use alloc::borrow::Cow;
#[cfg(not(feature = "std"))]
use alloc::{boxed::Box, string::String, vec, vec::Vec};
pub use backtrace::*;
use core::{any::Any, fmt};

/// The `ContextExt` trait allows extra information to be added to errors.
///
/// This is used to add tracking information to errors that bubble up from an
/// inner field.
pub trait ContextExt {
    /// Adds a new context frame to the error, consuming the original error.
    #[must_use]
    fn with_context<Frame: Into<BacktraceFrame>>(self, frame: Frame) -> Self;

    /// Adds a new frame of context to the error with the given message,
    /// consuming the original error.
    ///
    /// This also adds the file name and line number of the caller to the error.
    #[must_use]
    #[track_caller]
    fn with_message(self, message: impl Into<Cow<'static, str>>) -> Self;
}

impl ContextExt for Error {
    fn with_context<Frame: Into<BacktraceFrame>>(self, frame: Frame) -> Self {
        core::mem::forget(frame);
        self
    }

    #[track_caller]
    fn with_message(self, message: impl Into<Cow<'static, str>>) -> Self {
        let _ = message.into();
        self
    }
}

impl<T> ContextExt for BinResult<T> {
    fn with_context<Frame: Into<BacktraceFrame>>(self, frame: Frame) -> Self {
        self.map_err(|err| err.with_context(frame))
    }

    #[track_caller]
    fn with_message(self, message: impl Into<Cow<'static, str>>) -> Self {
        let _ = message.into();
        self
    }
}

/// The `CustomError` trait describes types that are usable as custom errors
/// in a [`BinResult`].
///
/// This trait is automatically implemented for any type which implements the
/// same traits as [`std::error::Error`], so anything you would normally use as
/// an error in other code is also a valid `CustomError`, with the additional
/// restriction that it must also be [`Send`] + [`Sync`].
///
/// This trait is Sealed.
pub trait CustomError: fmt::Display + fmt::Debug + Send + Sync + private::Sealed {
    #[doc(hidden)]
    fn as_any(&self) -> &(dyn Any + Send + Sync);

    #[doc(hidden)]
    fn as_any_mut(&mut self) -> &mut (dyn Any + Send + Sync);

    #[doc(hidden)]
    fn as_box_any(self: Box<Self>) -> Box<dyn Any + Send + Sync>;
}

impl<T: fmt::Display + fmt::Debug + Send + Sync + 'static> CustomError for T {
    fn as_any(&self) -> &(dyn Any + Send + Sync) {
        self
    }

    fn as_any_mut(&mut self) -> &mut (dyn Any + Send + Sync) {
        self
    }

    fn as_box_any(self: Box<Self>) -> Box<dyn Any + Send + Sync> {
        self
    }
}

// The intent here is to allow any object which is compatible with
// `std::error::Error + Send + Sync` to be stored in errors, including no_std
// mode.
impl dyn CustomError {
    /// Attempts to downcast a boxed error to a concrete type.
    ///
    /// # Errors
    ///
    /// If the downcast fails, `Self` will be returned.
    // Lint: Does not panic; the unwrap will not fail due to the `is`-guard and
    // must be expressed this way due to borrowck limitations
    #[allow(clippy::missing_panics_doc)]
    pub fn downcast<T: CustomError + 'static>(self: Box<Self>) -> Result<Box<T>, Box<Self>> {
        if self.is::<T>() {
            Ok(self.as_box_any().downcast().unwrap())
        } else {
            Err(self)
        }
    }

    /// Returns some mutable reference to the boxed value if it is of type `T`, or
    /// `None` if it isn't.
    pub fn downcast_mut<T: CustomError + 'static>(&mut self) -> Option<&mut T> {
        self.as_any_mut().downcast_mut()
    }

    /// Returns some reference to the boxed value if it is of type `T`, or
    /// `None` if it isn’t.
    pub fn downcast_ref<T: CustomError + 'static>(&self) -> Option<&T> {
        self.as_any().downcast_ref()
    }

    /// Returns `true` if the boxed type is the same as `T`.
    pub fn is<T: CustomError + 'static>(&self) -> bool {
        core::any::TypeId::of::<T>() == self.as_any().type_id()
    }
}

/// The error type used by [`BinRead`](crate::BinRead).
#[non_exhaustive]
pub enum Error {
    /// An expected [magic number](crate::docs::attribute#magic) was not found.
    BadMagic {
        /// The byte position of the unexpected magic in the reader.
        pos: u64,

        /// The value which was actually read.
        found: Box<dyn fmt::Debug + Send + Sync>,
    },

    /// An assertion failed.
    ///
    /// This variant is used for [`assert`] directives which use a string
    /// literal instead of an error object. Assertions that use error objects
    /// are represented by the [`Custom`] variant.
    ///
    /// [`assert`]: crate::docs::attribute#assert
    /// [`Custom`]: Self::Custom
    AssertFail {
        /// The byte position of the start of the field or object that raised
        /// an error.
        pos: u64,

        /// The failure message.
        message: String,
    },

    /// An error occurred in the underlying reader while reading or seeking to
    /// data.
    Io(io::Error),

    /// A user-generated error.
    ///
    /// This variant is used for [`assert`] directives which use an error object
    /// instead of a string literal. Assertions that use string literals are
    /// represented by the [`AssertFail`] variant.
    ///
    /// [`assert`]: crate::docs::attribute#assert
    /// [`AssertFail`]: Self::AssertFail
    Custom {
        /// The byte position of the start of the field or object that raised
        /// an error.
        pos: u64,

        /// The original error.
        err: Box<dyn CustomError>,
    },

    /// None of the variants of an enum could successfully be parsed from the
    /// data in the reader.
    ///
    /// This variant is used when the [`return_unexpected_error`] directive is
    /// set on an enum.
    ///
    /// [`return_unexpected_error`]: crate::docs::attribute#enum-errors
    NoVariantMatch {
        /// The byte position of the unparsable data in the reader.
        pos: u64,
    },

}

impl Error {
    /// Returns the source error. For a Backtrace this is the error that caused it, for every
    /// other error this returns self
    #[must_use]
    pub fn root_cause(&self) -> &Self {
        self
    }

    /// Check if the [root cause][`Self::root_cause`] of this error is an [`Error::Io`] and an
    /// [`io::ErrorKind::UnexpectedEof`].
    #[must_use]
    pub fn is_eof(&self) -> bool {
        match self {
            Error::Io(err) if err.kind() == io::ErrorKind::UnexpectedEof => true,
            _ => false,
        }
    }

    /// Returns a reference to the boxed error object if this `Error` is a
    /// custom error of type `T`, or `None` if it isn’t.
    #[must_use]
    pub fn custom_err<T: CustomError + 'static>(&self) -> Option<&T> {
        if let Error::Custom { err, .. } = self.root_cause() {
            err.downcast_ref()
        } else {
            None
        }
    }
}

impl From<io::Error> for Error {
    fn from(err: io::Error) -> Self {
        Self::Io(err)
    }
}

impl fmt::Display for Error {
    fn fmt(&self, f: &mut fmt::Formatter<'_>) -> fmt::Result {
        match self {
            Self::BadMagic { pos, found } => write!(f, "bad magic at 0x{pos:x}: {found:?}"),
            Self::AssertFail { pos, message } => write!(f, "{message} at 0x{pos:x}"),
            Self::Io(err) => fmt::Display::fmt(err, f),
            Self::Custom { pos, err } => write!(f, "{err} at 0x{pos:x}"),
            Self::NoVariantMatch { pos } => write!(f, "no variants matched at 0x{pos:x}"),
        }
    }
}

impl fmt::Debug for Error {
    fn fmt(&self, f: &mut fmt::Formatter<'_>) -> fmt::Result {
        <Error as fmt::Display>::fmt(self, f)
    }
}

#[cfg(feature = "std")]
impl std::error::Error for Error {}

mod private {
    use core::fmt;
    pub trait Sealed {}
    impl<T: fmt::Display + fmt::Debug + Send + Sync + 'static> Sealed for T {}
}
