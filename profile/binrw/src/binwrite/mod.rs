mod impls;

use crate::{
    io::{Seek, Write},
    BinResult, Endian,
    __private::Required,
};

/// The `BinWrite` trait serialises objects and writes them to streams.
///
/// This trait is usually derived, but can also be manually implemented by
/// writing an appropriate [`Args`] type and [`write_options()`] function.
///
/// [`Args`]: Self::Args
/// [`write_options()`]: Self::write_options
///
/// # Derivable
///
/// This trait can be used with `#[derive]` or `#[binwrite]`. Each field
/// of a derived type must either implement `BinWrite` or be annotated with an
/// attribute containing a [`map`], [`try_map`], or [`write_with`] directive.
///
/// [`map`]: crate::docs::attribute#map
/// [`write_with`]: crate::docs::attribute#custom-parserswriters
/// [`try_map`]: crate::docs::attribute#map
///
/// Using `#[binwrite]` instead of `#[derive]` is required when using
/// [temporary fields].
///
/// [temporary fields]: crate::docs::attribute#temp
pub trait BinWrite {
    /// The type used for the `args` parameter of [`write_args()`] and
    /// [`write_options()`].
    ///
    /// When the given type implements [`Default`], convenience functions like
    /// [`write()`] are enabled. `BinWrite` implementations that don’t
    /// receive any arguments should use the `()` type.
    ///
    /// When `BinWrite` is derived, the [`import`] and [`import_tuple`]
    /// directives define this type.
    ///
    /// [`import`]: crate::docs::attribute#arguments
    /// [`import_tuple`]: crate::docs::attribute#arguments
    /// [`write()`]: Self::write
    /// [`write_args()`]: Self::write_args
    /// [`write_options()`]: Self::write_options
    type Args<'a>;

    /// Write `Self` to the writer using default arguments.
    ///
    /// # Errors
    ///
    /// If writing fails, an [`Error`](crate::Error) variant will be returned.
    #[inline]
    fn write<W: Write + Seek>(&self, writer: &mut W) -> BinResult<()>
    where
        Self: crate::meta::WriteEndian,
        for<'a> Self::Args<'a>: Required,
    {
        self.write_args(writer, Self::Args::args())
    }

    /// Write `Self` to the writer assuming big-endian byte order.
    ///
    /// # Errors
    ///
    /// If writing fails, an [`Error`](crate::Error) variant will be returned.
    #[inline]
    fn write_be<W: Write + Seek>(&self, writer: &mut W) -> BinResult<()>
    where
        for<'a> Self::Args<'a>: Required,
    {
        self.write_be_args(writer, Self::Args::args())
    }

    /// Write `Self` to the writer assuming little-endian byte order.
    ///
    /// # Errors
    ///
    /// If writing fails, an [`Error`](crate::Error) variant will be returned.
    #[inline]
    fn write_le<W: Write + Seek>(&self, writer: &mut W) -> BinResult<()>
    where
        for<'a> Self::Args<'a>: Required,
    {
        self.write_le_args(writer, Self::Args::args())
    }

    /// Write `Self` to the writer using the given arguments.
    ///
    /// # Errors
    ///
    /// If writing fails, an [`Error`](crate::Error) variant will be returned.
    #[inline]
    fn write_args<W: Write + Seek>(&self, writer: &mut W, args: Self::Args<'_>) -> BinResult<()>
    where
        Self: crate::meta::WriteEndian,
    {
        self.write_options(writer, Endian::Little, args)
    }

    /// Write `Self` to the writer, assuming big-endian byte order, using the
    /// given arguments.
    ///
    /// # Errors
    ///
    /// If reading fails, an [`Error`](crate::Error) variant will be returned.
    #[inline]
    fn write_be_args<W: Write + Seek>(
        &self,
        writer: &mut W,
        args: Self::Args<'_>,
    ) -> BinResult<()> {
        self.write_options(writer, Endian::Big, args)
    }

    /// Write `Self` to the writer, assuming little-endian byte order, using the
    /// given arguments.
    ///
    /// # Errors
    ///
    /// If reading fails, an [`Error`](crate::Error) variant will be returned.
    #[inline]
    fn write_le_args<W: Write + Seek>(
        &self,
        writer: &mut W,
        args: Self::Args<'_>,
    ) -> BinResult<()> {
        self.write_options(writer, Endian::Little, args)
    }

    /// Write `Self` to the writer using the given [`Endian`] and
    /// arguments.
    ///
    /// # Errors
    ///
    /// If writing fails, an [`Error`](crate::Error) variant will be returned.
    fn write_options<W: Write + Seek>(
        &self,
        writer: &mut W,
        endian: Endian,
        args: Self::Args<'_>,
    ) -> BinResult<()>;
}

/// Extension methods for writing [`BinWrite`] objects directly to a writer.
///
/// # Examples
///
/// ```
/// use binrw::{binwrite, BinWriterExt, io::Cursor, Endian};
///
/// #[binwrite]
/// struct MyStruct(u8, u16, u8);
///
/// let mut writer = Cursor::new(Vec::new());
/// writer.write_be(&MyStruct(1, 0xffff, 2)).unwrap();
/// writer.write_type(&0x1234_u16, Endian::Little).unwrap();
///
/// assert_eq!(writer.into_inner(), [1, 0xff, 0xff, 2, 0x34, 0x12]);
/// ```
pub trait BinWriterExt: Write + Seek + Sized {
    /// Write `T` to the writer with the given byte order.
    ///
    /// # Errors
    ///
    /// If writing fails, an [`Error`](crate::Error) variant will be returned.
    fn write_type<T: BinWrite>(&mut self, value: &T, endian: Endian) -> BinResult<()>
    where
        for<'a> T::Args<'a>: Required,
    {
        self.write_type_args(value, endian, T::Args::args())
    }

    /// Write `T` to the writer assuming big-endian byte order.
    ///
    /// # Errors
    ///
    /// If writing fails, an [`Error`](crate::Error) variant will be returned.
    fn write_be<T: BinWrite>(&mut self, value: &T) -> BinResult<()>
    where
        for<'a> T::Args<'a>: Required,
    {
        self.write_type(value, Endian::Big)
    }

    /// Write `T` to the writer assuming little-endian byte order.
    ///
    /// # Errors
    ///
    /// If writing fails, an [`Error`](crate::Error) variant will be returned.
    fn write_le<T: BinWrite>(&mut self, value: &T) -> BinResult<()>
    where
        for<'a> T::Args<'a>: Required,
    {
        self.write_type(value, Endian::Little)
    }

    /// Write `T` to the writer assuming native-endian byte order.
    ///
    /// # Errors
    ///
    /// If writing fails, an [`Error`](crate::Error) variant will be returned.
    fn write_ne<T: BinWrite>(&mut self, value: &T) -> BinResult<()>
    where
        for<'a> T::Args<'a>: Required,
    {
        self.write_type(value, Endian::NATIVE)
    }

    /// Write `T` to the writer with the given byte order and arguments.
    ///
    /// # Errors
    ///
    /// If writing fails, an [`Error`](crate::Error) variant will be returned.
    fn write_type_args<T: BinWrite>(
        &mut self,
        value: &T,
        endian: Endian,
        args: T::Args<'_>,
    ) -> BinResult<()> {
        T::write_options(value, self, endian, args)?;

        Ok(())
    }

    /// Write `T` to the writer, assuming big-endian byte order, using the
    /// given arguments.
    ///
    /// # Errors
    ///
    /// If writing fails, an [`Error`](crate::Error) variant will be returned.
    fn write_be_args<T: BinWrite>(&mut self, value: &T, args: T::Args<'_>) -> BinResult<()> {
        self.write_type_args(value, Endian::Big, args)
    }

    /// Write `T` to the writer, assuming little-endian byte order, using the
    /// given arguments.
    ///
    /// # Errors
    ///
    /// If writing fails, an [`Error`](crate::Error) variant will be returned.
    fn write_le_args<T: BinWrite>(&mut self, value: &T, args: T::Args<'_>) -> BinResult<()> {
        self.write_type_args(value, Endian::Little, args)
    }

    /// Write `T` to the writer, assuming native-endian byte order, using the
    /// given arguments.
    ///
    /// # Errors
    ///
    /// If writing fails, an [`Error`](crate::Error) variant will be returned.
    fn write_ne_args<T: BinWrite>(&mut self, value: &T, args: T::Args<'_>) -> BinResult<()> {
        self.write_type_args(value, Endian::NATIVE, args)
    }
}

impl<W: Write + Seek + Sized> BinWriterExt for W {}
