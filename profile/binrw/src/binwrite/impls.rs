use crate::{
    io::{Seek, Write},
    BinResult, BinWrite, Endian,
};
#[cfg(not(feature = "std"))]
use alloc::{boxed::Box, vec::Vec};
use core::{
    any::Any,
    marker::PhantomData,
    num::{
        NonZeroI128, NonZeroI16, NonZeroI32, NonZeroI64, NonZeroI8, NonZeroU128, NonZeroU16,
        NonZeroU32, NonZeroU64, NonZeroU8,
    },
};

macro_rules! binwrite_num_impl {
    ($($type_name:ty),*$(,)?) => {
        $(
            impl BinWrite for $type_name {
                type Args<'a> = ();

                fn write_options<W: Write + Seek>(
                    &self,
                    writer: &mut W,
                    endian: Endian,
                    (): Self::Args<'_>,
                ) -> BinResult<()> {
                    writer.write_all(&match endian {
                        Endian::Big => self.to_be_bytes(),
                        Endian::Little => self.to_le_bytes(),
                    }).map_err(Into::into)
                }
            }
        )*
    };
}

binwrite_num_impl!(u8, u16, u32, u64, u128, i8, i16, i32, i64, i128, f32, f64);

macro_rules! binwrite_nonzero_num_impl {
    ($($non_zero_type:ty => $type_name:ty),*$(,)?) => {
        $(
            impl BinWrite for $non_zero_type {
                type Args<'a> = ();

                fn write_options<W: Write + Seek>(
                    &self,
                    writer: &mut W,
                    endian: Endian,
                    (): Self::Args<'_>,
                ) -> BinResult<()> {
                    let num = <$type_name>::from(*self);

                    writer.write_all(&match endian {
                        Endian::Big => num.to_be_bytes(),
                        Endian::Little => num.to_le_bytes(),
                    }).map_err(Into::into)
                }
            }
        )*
    };
}

binwrite_nonzero_num_impl!(
    NonZeroU8   => u8,
    NonZeroU16  => u16,
    NonZeroU32  => u32,
    NonZeroU64  => u64,
    NonZeroU128 => u128,
    NonZeroI8   => i8,
    NonZeroI16  => i16,
    NonZeroI32  => i32,
    NonZeroI64  => i64,
    NonZeroI128 => i128,
);

impl<T, const N: usize> BinWrite for [T; N]
where
    T: BinWrite + 'static,
    for<'a> T::Args<'a>: Clone,
{
    type Args<'a> = T::Args<'a>;

    fn write_options<W: Write + Seek>(
        &self,
        writer: &mut W,
        endian: Endian,
        args: Self::Args<'_>,
    ) -> BinResult<()> {
        if let Some(this) = <dyn Any>::downcast_ref::<[u8; N]>(self) {
            writer.write_all(&this[..])?;
        } else {
            for item in self {
                T::write_options(item, writer, endian, args.clone())?;
            }
        }

        Ok(())
    }
}

impl<T> BinWrite for [T]
where
    T: BinWrite,
    for<'a> T::Args<'a>: Clone,
{
    type Args<'a> = T::Args<'a>;

    fn write_options<W: Write + Seek>(
        &self,
        writer: &mut W,
        endian: Endian,
        args: Self::Args<'_>,
    ) -> BinResult<()> {
        for item in self {
            T::write_options(item, writer, endian, args.clone())?;
        }

        Ok(())
    }
}

impl<T> BinWrite for Vec<T>
where
    T: BinWrite + 'static,
    for<'a> T::Args<'a>: Clone,
{
    type Args<'a> = T::Args<'a>;

    fn write_options<W: Write + Seek>(
        &self,
        writer: &mut W,
        endian: Endian,
        args: Self::Args<'_>,
    ) -> BinResult<()> {
        if let Some(this) = <dyn Any>::downcast_ref::<Vec<u8>>(self) {
            writer.write_all(this)?;
        } else if let Some(this) = <dyn Any>::downcast_ref::<Vec<i8>>(self) {
            writer.write_all(bytemuck::cast_slice(this.as_slice()))?;
        } else {
            for item in self {
                T::write_options(item, writer, endian, args.clone())?;
            }
        }

        Ok(())
    }
}

impl<T: BinWrite + ?Sized> BinWrite for &T {
    type Args<'a> = T::Args<'a>;

    fn write_options<W: Write + Seek>(
        &self,
        writer: &mut W,
        endian: Endian,
        args: Self::Args<'_>,
    ) -> BinResult<()> {
        (**self).write_options(writer, endian, args)
    }
}

impl<T: BinWrite + ?Sized + 'static> BinWrite for Box<T> {
    type Args<'a> = T::Args<'a>;

    fn write_options<W: Write + Seek>(
        &self,
        writer: &mut W,
        endian: Endian,
        args: Self::Args<'_>,
    ) -> BinResult<()> {
        if let Some(this) = <dyn Any>::downcast_ref::<Box<[u8]>>(self) {
            writer.write_all(this)?;
        } else {
            (**self).write_options(writer, endian, args)?;
        }

        Ok(())
    }
}

impl<T: BinWrite> BinWrite for Option<T> {
    type Args<'a> = T::Args<'a>;

    fn write_options<W: Write + Seek>(
        &self,
        writer: &mut W,
        endian: Endian,
        args: Self::Args<'_>,
    ) -> BinResult<()> {
        match self {
            Some(inner) => inner.write_options(writer, endian, args),
            None => Ok(()),
        }
    }
}

impl<T> BinWrite for PhantomData<T> {
    type Args<'a> = ();

    fn write_options<W: Write + Seek>(
        &self,
        _: &mut W,
        _: Endian,
        (): Self::Args<'_>,
    ) -> BinResult<()> {
        Ok(())
    }
}

impl BinWrite for () {
    type Args<'a> = ();

    fn write_options<W: Write + Seek>(
        &self,
        _: &mut W,
        _: Endian,
        (): Self::Args<'_>,
    ) -> BinResult<()> {
        Ok(())
    }
}

macro_rules! binwrite_tuple_impl {
    ($type1:ident $(, $types:ident)*) => {
        #[allow(non_camel_case_types)]
        impl<Args: Clone,
            $type1: for<'a> BinWrite<Args<'a> = Args>, $($types: for<'a> BinWrite<Args<'a> = Args>),*
        > BinWrite for ($type1, $($types),*) {
            type Args<'a> = Args;

            fn write_options<W: Write + Seek>(
                &self,
                writer: &mut W,
                endian: Endian,
                args: Self::Args<'_>,
            ) -> BinResult<()> {
                let ($type1, $(
                    $types
                ),*) = self;

                $type1.write_options(writer, endian, args.clone())?;
                $(
                    $types.write_options(writer, endian, args.clone())?;
                )*

                Ok(())
            }
        }

        binwrite_tuple_impl!($($types),*);
    };

    () => {};
}

binwrite_tuple_impl!(
    b1, b2, b3, b4, b5, b6, b7, b8, b9, b10, b11, b12, b13, b14, b15, b16, b17, b18, b19, b20, b21,
    b22, b23, b24, b25, b26, b27, b28, b29, b30, b31, b32
);
