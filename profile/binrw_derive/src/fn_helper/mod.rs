use crate::{
    combine_error,
    result::PartialResult,
    util::{from_crate, ident_str},
};
use proc_macro::TokenStream;
use quote::{quote, ToTokens};
use syn::{
    parse::{Parse, ParseStream},
    parse_macro_input, parse_quote,
    punctuated::Punctuated,
    spanned::Spanned,
    Error, FnArg, Ident, ItemFn, Pat, Token,
};

#[cfg_attr(coverage_nightly, coverage(off))]
pub(crate) fn derive_from_attribute<const WRITE: bool>(
    attr: TokenStream,
    input: TokenStream,
) -> TokenStream {
    match generate::<WRITE>(
        parse_macro_input!(attr as Options<WRITE>),
        parse_macro_input!(input as ItemFn),
    ) {
        PartialResult::Ok(func) => func.into_token_stream(),
        PartialResult::Partial(func, err) => {
            let err = err.into_compile_error();
            quote! {
                #func
                #err
            }
        }
        PartialResult::Err(err) => err.into_compile_error(),
    }
    .into()
}

fn generate<const WRITE: bool>(
    Options { stream, endian }: Options<WRITE>,
    mut func: ItemFn,
) -> PartialResult<ItemFn, Error> {
    // Since these functions are written to match the binrw API, args must be
    // passed by value even when they are not consumed, so suppress this lint
    func.attrs
        .push(parse_quote!(#[allow(clippy::needless_pass_by_value)]));

    let raw_args_span = func.sig.variadic.take().map(|variadic| variadic.span());

    func.sig.generics.params.push({
        let stream_trait = if WRITE { WRITE_TRAIT } else { READ_TRAIT };

        parse_quote!(#STREAM_T: #stream_trait + #SEEK_TRAIT)
    });

    let mut args = core::mem::take(&mut func.sig.inputs)
        .into_iter()
        .filter(is_not_variadic);
    let mut args_pat = Punctuated::<_, Token![,]>::new();
    let mut args_ty = Punctuated::<_, Token![,]>::new();

    if WRITE {
        if let Some(arg) = args.next() {
            func.sig.inputs.push(arg);
        } else {
            let span = func.sig.ident.span();
            return PartialResult::Partial(
                func,
                Error::new(span, "missing required value parameter"),
            );
        }
    }

    func.sig.inputs.push(parse_quote!(#stream: &mut #STREAM_T));
    func.sig.inputs.push(parse_quote!(#endian: #ENDIAN_ENUM));

    if let Some(raw_args_span) = raw_args_span {
        if let Some(arg) = args.next() {
            func.sig.inputs.push(arg);
        } else {
            return PartialResult::Partial(
                func,
                Error::new(raw_args_span, "missing raw arguments parameter"),
            );
        }

        if let Some(arg) = args.next() {
            return PartialResult::Partial(
                func,
                Error::new(arg.span(), "unexpected extra parameter after raw arguments"),
            );
        }
    } else {
        for arg in args {
            match arg {
                FnArg::Receiver(r) => {
                    return PartialResult::Partial(
                        func,
                        Error::new(r.span(), "invalid `self` in free function"),
                    );
                }
                FnArg::Typed(ty) => {
                    args_pat.push(ty.pat);
                    args_ty.push(ty.ty);
                }
            }
        }

        if args_ty.len() == 1 {
            // Add trailing comma so it's a single-element tuple, not a parenthesized item
            args_pat.push_punct(parse_quote!(,));
            args_ty.push_punct(parse_quote!(,));
        }

        func.sig.inputs.push(parse_quote!((#args_pat): (#args_ty)));
    }

    PartialResult::Ok(func)
}

fn is_not_variadic(arg: &FnArg) -> bool {
    !matches!(arg, FnArg::Typed(syn::PatType { ty, .. })
        if matches!(ty.as_ref(), syn::Type::Verbatim(..)))
}

ident_str! {
    STREAM_T = "__BinrwGeneratedStreamT";
    ENDIAN_ENUM = from_crate!(Endian);
    READ_TRAIT = from_crate!(io::Read);
    WRITE_TRAIT = from_crate!(io::Write);
    SEEK_TRAIT = from_crate!(io::Seek);
}

struct Options<const WRITE: bool> {
    stream: Pat,
    endian: Pat,
}

impl<const WRITE: bool> Parse for Options<WRITE> {
    fn parse(input: ParseStream<'_>) -> syn::Result<Self> {
        fn try_set(
            kw: &str,
            value: Ident,
            out: &mut Option<Ident>,
            all_errors: &mut Option<Error>,
        ) {
            if out.is_none() {
                *out = Some(value);
            } else {
                combine_error(
                    all_errors,
                    Error::new(value.span(), format!("conflicting `{kw}` keyword")),
                );
            }
        }

        let mut stream = None;
        let mut endian = None;

        let mut all_errors = None;

        for arg in Punctuated::<Arg<WRITE>, Token![,]>::parse_terminated(input)? {
            match arg {
                Arg::Stream(ident) => try_set(
                    if WRITE { "writer" } else { "reader" },
                    ident,
                    &mut stream,
                    &mut all_errors,
                ),
                Arg::Endian(ident) => try_set("endian", ident, &mut endian, &mut all_errors),
            }
        }

        if let Some(error) = all_errors {
            Err(error)
        } else {
            Ok(Self {
                stream: stream.map_or_else(|| parse_quote!(_), |ident| parse_quote!(#ident)),
                endian: endian.map_or_else(|| parse_quote!(_), |ident| parse_quote!(#ident)),
            })
        }
    }
}

enum Arg<const WRITE: bool> {
    Stream(Ident),
    Endian(Ident),
}

impl<const WRITE: bool> Parse for Arg<WRITE> {
    fn parse(input: ParseStream<'_>) -> syn::Result<Self> {
        fn maybe_ident(default: Ident, input: ParseStream<'_>) -> syn::Result<Ident> {
            if input.is_empty() || input.peek(Token![,]) {
                Ok(default)
            } else {
                let next = input.lookahead1();
                if next.peek(Token![:]) {
                    input.parse::<Token![:]>()?;
                    input.parse()
                } else {
                    Err(next.error())
                }
            }
        }

        let kw = input.lookahead1();
        if (WRITE && kw.peek(kw::writer)) || (!WRITE && kw.peek(kw::reader)) {
            let kw = input.parse::<Ident>()?;
            Ok(Arg::Stream(maybe_ident(kw, input)?))
        } else if kw.peek(kw::endian) {
            let kw = input.parse::<Ident>()?;
            Ok(Arg::Endian(maybe_ident(kw, input)?))
        } else {
            Err(kw.error())
        }
    }
}

mod kw {
    syn::custom_keyword!(endian);
    syn::custom_keyword!(reader);
    syn::custom_keyword!(value);
    syn::custom_keyword!(writer);
}

#[cfg(test)]
mod tests {
    use super::*;
    use proc_macro2::TokenStream;

    #[cfg_attr(coverage_nightly, coverage(off))]
    fn try_input<const WRITE: bool>(attr: TokenStream, params: &TokenStream) {
        let options = syn::parse2::<Options<WRITE>>(attr).unwrap();
        let func = syn::parse2::<ItemFn>(quote::quote! {
            fn test(#params) -> binrw::BinResult<()> { Ok(()) }
        })
        .unwrap();
        generate::<WRITE>(options, func).unwrap();
    }

    macro_rules! try_error (
        (read $name:ident: $message:literal $opts:tt $params:tt) => {
            #[test]
            #[cfg_attr(coverage_nightly, coverage(off))]
            #[should_panic(expected = $message)]
            fn $name() {
                try_input::<false>(quote::quote! $opts, &quote::quote! $params);
            }
        };

        (write $name:ident: $message:literal $opts:tt $params:tt) => {
            #[test]
            #[cfg_attr(coverage_nightly, coverage(off))]
            #[should_panic(expected = $message)]
            fn $name() {
                try_input::<true>(quote::quote! $opts, &quote::quote! $params);
            }
        };
    );

    try_error!(read fn_helper_invalid_option_value: "expected identifier"
        [reader:] ()
    );

    try_error!(read fn_helper_invalid_option_token: "expected `:`"
        [reader = invalid] ()
    );

    try_error!(read fn_helper_invalid_reader: "expected `reader` or `endian`"
        [invalid] ()
    );

    try_error!(write fn_helper_invalid_writer: "expected `writer` or `endian`"
        [invalid] ()
    );

    try_error!(read fn_helper_conflicting_reader: "conflicting `reader`"
        [reader, reader] ()
    );

    try_error!(write fn_helper_conflicting_writer: "conflicting `writer`"
        [writer, writer] ()
    );

    try_error!(read fn_helper_conflicting_endian: "conflicting `endian`"
        [endian, endian] ()
    );

    try_error!(read fn_helper_invalid_self: "invalid `self`"
        [] (&self)
    );

    try_error!(write fn_helper_missing_object: "missing required value"
        [] ()
    );

    try_error!(read fn_helper_missing_args_reader: "missing raw arguments"
        [] (_: ...)
    );

    try_error!(read fn_helper_extra_args_reader: "unexpected extra parameter"
        [] (arg0: (), arg1: (), _: ...)
    );

    try_error!(write fn_helper_extra_args_writer: "unexpected extra parameter"
        [] (arg0: &(), arg1: (), arg2: (), _: ...)
    );

    try_error!(write fn_helper_missing_args_writer: "missing raw arguments"
        [] (obj: &(), _: ...)
    );
}
