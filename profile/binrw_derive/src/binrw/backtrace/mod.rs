mod syntax_highlighting;

use super::parser::StructField;
use core::fmt::{self, Display, Formatter};
use owo_colors::OwoColorize;
use proc_macro2::Span;
use syn::spanned::Spanned;
use syntax_highlighting::{conditional_bold, CondOwo, SyntaxInfo};

pub(crate) struct BacktraceFrame {
    span: Span,
    highlight_line: usize,
    syntax_info: SyntaxInfo,
}

struct Line {
    num: usize,
    start_col: usize,
    text: String,
}

impl BacktraceFrame {
    pub(crate) fn from_field(field: &StructField) -> Self {
        Self {
            span: field.field.span(),
            highlight_line: start(field.ty.span()).line(),
            syntax_info: syntax_highlighting::get_syntax_highlights(field),
        }
    }

    fn iter_lines(&self) -> impl Iterator<Item = Line> + '_ {
        if let Some(text) = self.span.source_text() {
            let start_col = start(self.span).column() - 1;
            let mut min_whitespace = start_col;
            for line in text.lines().skip(1) {
                for (i, c) in line.chars().enumerate() {
                    if !c.is_whitespace() {
                        min_whitespace = min_whitespace.min(i);
                        break;
                    }
                }
            }

            either::Left(
                (start(self.span).line()..)
                    .zip(text.lines().enumerate().map(|(i, line)| {
                        let line = if i == 0 {
                            let spaces_to_add = start_col - min_whitespace;
                            if spaces_to_add == 0 {
                                line.to_owned()
                            } else {
                                format!("{}{}", " ".repeat(spaces_to_add), line)
                            }
                        } else {
                            line.get(min_whitespace..).unwrap_or_default().to_owned()
                        };

                        (min_whitespace + 1, line)
                    }))
                    .map(|(line_num, (start_col, line))| Line {
                        num: line_num,
                        start_col,
                        text: line,
                    })
                    .collect::<Vec<_>>()
                    .into_iter(),
            )
        } else {
            either::Right(core::iter::empty())
        }
    }

    fn write_line(
        &self,
        Line {
            num: line_num,
            start_col,
            text: line,
        }: Line,
        max_digits: usize,
        f: &mut Formatter<'_>,
    ) -> fmt::Result {
        let should_highlight = line_num == self.highlight_line;

        let bar = if should_highlight {
            CondOwo::Applied("⎬".bold())
        } else {
            CondOwo::NotApplied("|")
        };
        write!(
            f,
            "   {:2$} {}  ",
            conditional_bold(&line_num, should_highlight),
            bar,
            max_digits
        )?;

        if line.trim().starts_with("//") {
            return writeln!(f, "{}", line.color(owo_colors::XtermColors::Boulder));
        }

        if let Some(line_highlights) = self.syntax_info.lines.get(&line_num) {
            let line_len = line.len() + start_col;

            // syntax highlighting on this line
            let highlights = &line_highlights.highlights;
            let highlights = highlights
                .iter()
                .enumerate()
                .filter(|&(i, highlight)| {
                    i == 0 || !highlights[i - 1].0.contains(&highlight.0.start)
                })
                .map(|(_, (range, color))| {
                    (range.start.min(line_len)..range.end.min(line_len), color)
                });
            let highlights_next_start = line_highlights
                .highlights
                .iter()
                .skip(1)
                .map(|x| x.0.start)
                .chain(core::iter::once(start_col + line.len()));

            if let Some((first_range, _)) = line_highlights.highlights.first() {
                let component = &line[..first_range.start - start_col];

                write!(f, "{}", conditional_bold(&component, should_highlight))?;
            } else {
                write!(f, "{}", conditional_bold(&line, should_highlight))?;
            }

            for ((range, color), next_start) in highlights.zip(highlights_next_start) {
                let range = (range.start - start_col)..(range.end - start_col);
                let next_start = next_start - start_col;
                let uncolored_range = range.end..next_start;

                // write colored portion
                if !range.is_empty() {
                    write!(
                        f,
                        "{}",
                        conditional_bold(&(&line[range]).color(color.into_owo()), should_highlight)
                    )?;
                }

                if !uncolored_range.is_empty() {
                    // write next uncolored portion
                    write!(
                        f,
                        "{}",
                        conditional_bold(&&line[uncolored_range], should_highlight)
                    )?;
                }
            }

            writeln!(f)
        } else {
            writeln!(f, "{}", conditional_bold(&line, should_highlight))
        }
    }
}

impl Display for BacktraceFrame {
    fn fmt(&self, f: &mut Formatter<'_>) -> fmt::Result {
        let line = end(self.span).line();

        if line != 0 {
            let max_digits =
                core::iter::successors(Some(line), |n| Some(n / 10).filter(|n| *n != 0)).count();

            let bars = "─".repeat(max_digits);

            writeln!(f, "  ┄{bars}─╮")?;
            for line in self.iter_lines() {
                self.write_line(line, max_digits, f)?;
            }
            writeln!(f, "  ┄{bars}─╯")?;
        }

        Ok(())
    }
}

// Unwrapping the proc-macro2 Span is undesirable but necessary until its API
// is updated to allow retrieving line/column again. Using a separate function
// to unwrap just to make it clearer what needs to be undone later.
// <https://github.com/dtolnay/proc-macro2/pull/383>
struct LineColumn {
    line: usize,
    column: usize,
}

impl LineColumn {
    fn line(&self) -> usize {
        self.line
    }

    fn column(&self) -> usize {
        self.column
    }
}

#[cfg(all(feature = "verbose-backtrace", nightly, proc_macro))]
fn start(span: Span) -> LineColumn {
    let span = span.unwrap().start();
    LineColumn {
        line: span.line(),
        column: span.column(),
    }
}
#[cfg(all(feature = "verbose-backtrace", nightly, proc_macro))]
fn end(span: Span) -> LineColumn {
    let span = span.unwrap().end();
    LineColumn {
        line: span.line(),
        column: span.column(),
    }
}
#[cfg(not(all(feature = "verbose-backtrace", nightly, proc_macro)))]
fn start(_: Span) -> LineColumn {
    LineColumn { line: 0, column: 0 }
}
#[cfg(not(all(feature = "verbose-backtrace", nightly, proc_macro)))]
fn end(_: Span) -> LineColumn {
    LineColumn { line: 0, column: 0 }
}
