use super::{end, start};
use crate::binrw::parser::{
    AssertionError, CondEndian, Condition, ErrContext, FieldMode, Map, PassedArgs, StructField,
};
use core::{
    fmt::{Display, Formatter},
    ops::Range,
};
use owo_colors::{styles::BoldDisplay, XtermColors};
use proc_macro2::{Span, TokenTree};
use quote::ToTokens;
use std::collections::HashMap;
use syn::{
    parse::Parse,
    punctuated::Punctuated,
    spanned::Spanned,
    visit::{self, visit_type, Visit},
    Lit,
};

#[derive(Default)]
pub(crate) struct SyntaxInfo {
    pub(crate) lines: HashMap<usize, LineSyntax>,
}

#[derive(Debug, Clone, Copy, PartialEq)]
pub(crate) enum Color {
    String,   // yellow
    Char,     // purple
    Number,   // purple
    Keyword,  // red
    Function, // green
    Unary,    // blue
}

impl Color {
    pub(crate) fn into_owo(self) -> owo_colors::XtermColors {
        match self {
            Self::String => XtermColors::DollyYellow,
            Self::Char | Self::Number => XtermColors::Heliotrope,
            Self::Keyword => XtermColors::DarkRose,
            Self::Function => XtermColors::RioGrandeGreen,
            Self::Unary => XtermColors::MalibuBlue,
        }
    }
}

pub(crate) fn conditional_bold<D>(item: &D, apply: bool) -> CondOwo<BoldDisplay<'_, D>, &'_ D>
where
    D: Display + Sized,
{
    if apply {
        CondOwo::Applied(BoldDisplay(item))
    } else {
        CondOwo::NotApplied(item)
    }
}

pub(crate) enum CondOwo<A, N> {
    Applied(A),
    NotApplied(N),
}

impl<A: Display, N: Display> Display for CondOwo<A, N> {
    fn fmt(&self, f: &mut Formatter<'_>) -> core::fmt::Result {
        match self {
            CondOwo::Applied(a) => a.fmt(f),
            CondOwo::NotApplied(n) => n.fmt(f),
        }
    }
}

#[derive(Default)]
pub(crate) struct LineSyntax {
    pub(crate) highlights: Vec<(Range<usize>, Color)>,
}

#[derive(Default)]
struct Visitor {
    syntax_info: SyntaxInfo,
}

impl SyntaxInfo {
    fn highlight_color(&mut self, span: Span, color: Color) {
        let start = start(span);
        let end = end(span);

        let line = self.lines.entry(start.line()).or_default();

        assert_eq!(start.line(), end.line());
        line.highlights.push((start.column()..end.column(), color));
    }
}

pub(super) fn get_syntax_highlights(field: &StructField) -> SyntaxInfo {
    let mut visit = Visitor::default();

    visit_type(&mut visit, &field.ty);
    visit_expr_attributes(field, &mut visit);
    highlight_attributes(&field.field.attrs, &mut visit);

    let Visitor { mut syntax_info } = visit;

    for keyword_span in &field.keyword_spans {
        let start = start(*keyword_span);
        let end = end(*keyword_span);
        let line = syntax_info
            .lines
            .entry(start.line())
            .or_insert_with(LineSyntax::default);

        line.highlights
            .push((start.column()..end.column(), Color::Keyword));
    }

    // ensure highlights are sorted in-order
    syntax_info
        .lines
        .values_mut()
        .for_each(|line| line.highlights.sort_by_key(|x| x.0.start));

    syntax_info
        .lines
        .values_mut()
        .for_each(|line| line.highlights.dedup_by_key(|line| line.0.clone()));

    syntax_info
}

fn highlight_attributes(attrs: &[syn::Attribute], visit: &mut Visitor) {
    let syntax_info = &mut visit.syntax_info;
    for attr in attrs {
        // #[path ...]
        // ^ ^^^^
        // |____|______ path and pound_token
        //
        syntax_info.highlight_color(attr.pound_token.span(), Color::Keyword);
        syntax_info.highlight_color(attr.path.span(), Color::Keyword);

        // #[...]
        //  ^   ^
        //  |___|___ brackets
        //
        let span = attr.bracket_token.span;
        let start = start(span);
        let end = end(span);

        let line = syntax_info.lines.entry(start.line()).or_default();

        line.highlights.push((
            start.column()..start.column().saturating_add(1),
            Color::Keyword,
        ));
        line.highlights
            .push((end.column().saturating_sub(1)..end.column(), Color::Keyword));

        // #[path(...)]
        //       ^   ^
        //       |___|___ parens
        //
        if let Some(TokenTree::Group(group)) = attr.tokens.clone().into_iter().next() {
            syntax_info.highlight_color(group.span_open(), Color::Keyword);
            syntax_info.highlight_color(group.span_close(), Color::Keyword);
        }
    }
}

fn visit_expr_attributes(field: &StructField, visitor: &mut Visitor) {
    macro_rules! visit {
        ($expr:expr) => {
            if let Ok(expr) = syn::parse2::<syn::Expr>($expr) {
                visit::visit_expr(visitor, &expr);
            }
        };
    }

    macro_rules! spans_from_exprs {
        ($($field:ident),*) => {
            $(
                if let Some(tokens) = field.$field.clone() {
                    visit!(tokens);
                }
            )*
        };
    }

    spans_from_exprs!(
        count,
        offset,
        pad_before,
        pad_after,
        align_before,
        align_after,
        seek_before,
        pad_size_to
    );

    if let Some(condition) = field.if_cond.clone() {
        let Condition {
            condition,
            alternate,
        } = condition;

        visit!(condition);
        if let Some(alternate) = alternate {
            visit!(alternate);
        }
    }

    if let Some(magic) = field.magic.clone() {
        visit!(magic.into_value().into_match_value());
    }

    if let CondEndian::Cond(_, expr) = &field.endian {
        visit!(expr.clone());
    }

    if let Map::Map(expr) | Map::Try(expr) = field.map.clone() {
        visit!(expr);
    }

    match &field.args {
        PassedArgs::List(args) => {
            for arg in args.as_ref() {
                visit!(arg.clone());
            }
        }
        PassedArgs::Tuple(expr) => {
            visit!(expr.as_ref().clone());
        }
        PassedArgs::Named(args) => {
            for arg in args.as_ref() {
                if let Ok(args) = syn::parse2::<ArgList>(arg.clone()) {
                    for arg in args.0 {
                        if let Some(expr) = arg.expr {
                            visit::visit_expr(visitor, &expr);
                        }
                    }
                }
            }
        }
        PassedArgs::None => (),
    }

    if let FieldMode::Calc(expr) | FieldMode::TryCalc(expr) | FieldMode::Function(expr) =
        &field.field_mode
    {
        visit!(expr.clone());
    }

    for assert in &field.assertions {
        visit!(assert.condition.clone());

        let (AssertionError::Message(err) | AssertionError::Error(err)) = assert.consequent.clone();
        visit!(err);
    }

    if let Some(context_expr) = &field.err_context {
        match context_expr {
            ErrContext::Context(expr) => visit!(expr.to_token_stream()),
            ErrContext::Format(fmt, exprs) => {
                visit!(fmt.to_token_stream());
                for expr in exprs {
                    visit!(expr.to_token_stream());
                }
            }
        }
    }
}

struct ArgList(Punctuated<FieldValue, syn::token::Comma>);

impl Parse for ArgList {
    fn parse(input: syn::parse::ParseStream<'_>) -> syn::Result<Self> {
        Punctuated::parse_terminated(input).map(Self)
    }
}

impl<'ast> Visit<'ast> for Visitor {
    fn visit_lit(&mut self, lit: &'ast syn::Lit) {
        let start = start(lit.span());
        let end = end(lit.span());

        // syntax highlighting for multi-line spans isn't supported yet (sorry)
        if start.line() == end.line() {
            let lines = self.syntax_info.lines.entry(start.line()).or_default();

            lines.highlights.push((
                start.column()..end.column(),
                match lit {
                    Lit::Str(_) | Lit::ByteStr(_) => Color::String,
                    Lit::Byte(_) | Lit::Char(_) => Color::Char,
                    Lit::Int(_) | Lit::Float(_) | Lit::Bool(_) => Color::Number,
                    Lit::Verbatim(_) => return,
                },
            ));
        }
    }

    fn visit_ident(&mut self, ident: &'ast proc_macro2::Ident) {
        if is_keyword_ident(ident) {
            let start = start(ident.span());
            let end = end(ident.span());

            self.syntax_info
                .lines
                .entry(start.line())
                .or_default()
                .highlights
                .push((start.column()..end.column(), Color::Keyword));
        }
    }

    fn visit_expr_method_call(&mut self, call: &'ast syn::ExprMethodCall) {
        let ident = &call.method;
        let start = start(ident.span());
        let end = end(ident.span());

        self.syntax_info
            .lines
            .entry(start.line())
            .or_default()
            .highlights
            .push((start.column()..end.column(), Color::Function));

        // continue walking ast
        visit::visit_expr_method_call(self, call);
    }

    fn visit_expr_call(&mut self, call: &'ast syn::ExprCall) {
        if let syn::Expr::Path(path) = &*call.func {
            if let Some(ident) = path.path.segments.last() {
                let ident = &ident.ident;
                let start = start(ident.span());
                let end = end(ident.span());

                self.syntax_info
                    .lines
                    .entry(start.line())
                    .or_default()
                    .highlights
                    .push((start.column()..end.column(), Color::Function));
            }
        }

        // continue walking ast
        visit::visit_expr_call(self, call);
    }

    fn visit_bin_op(&mut self, binop: &'ast syn::BinOp) {
        self.syntax_info
            .highlight_color(binop.span(), Color::Keyword);
    }

    fn visit_un_op(&mut self, unop: &'ast syn::UnOp) {
        self.syntax_info.highlight_color(unop.span(), Color::Unary);
    }

    fn visit_member(&mut self, member: &'ast syn::Member) {
        if let syn::Member::Unnamed(index) = member {
            self.syntax_info.highlight_color(index.span, Color::Number);
        }
    }

    fn visit_path(&mut self, path: &'ast syn::Path) {
        if path.segments.len() > 1 {
            if let Some(first_segment) = path.segments.iter().next() {
                self.syntax_info
                    .highlight_color(first_segment.ident.span(), Color::Keyword);
            }
        }

        visit::visit_path(self, path);
    }
}

fn is_keyword_ident(ident: &syn::Ident) -> bool {
    macro_rules! is_any {
        ($($option:ident),*) => {
            $(ident == (stringify!($option)) ||)* false
        }
    }

    #[rustfmt::skip]
    let is_keyword = is_any!(
        // prelude/keywords/primitives
        Vec, u8, u16, u32, u64, u128, i8, i16, i32, i64, i128, char, String, Default,
        Self, super, Drop, Send, Sync, Sized, Fn, FnMut, FnOnce, From, Into, Iterator,
        IntoIterator, Ord, Eq, PartialEq, Eq, Box, ToString, usize, isize, f32, f64, str,
        Option,

        // binrw 'keywords'
        align_after, align_before, args, args_raw, assert, big, binread, br, brw, binwrite,
        bw, calc, count, default, ignore, import, import_raw, is_big, is_little,
        little, magic, map, offset, pad_after, pad_before, pad_size_to, parse_with,
        pre_assert, repr, restore_position, return_all_errors,
        return_unexpected_error, seek_before, temp, try_map, write_with
    );

    is_keyword
}

#[derive(Debug, Clone)]
struct FieldValue {
    ident: syn::Ident,
    expr: Option<syn::Expr>,
}

impl From<FieldValue> for (syn::Ident, Option<syn::Expr>) {
    fn from(x: FieldValue) -> Self {
        let FieldValue { ident, expr, .. } = x;

        (ident, expr)
    }
}

impl Parse for FieldValue {
    fn parse(input: syn::parse::ParseStream<'_>) -> syn::Result<Self> {
        let ident = input.parse()?;
        let expr = if input.lookahead1().peek(syn::Token![:]) {
            input.parse::<syn::Token![:]>()?;
            Some(input.parse()?)
        } else {
            None
        };

        Ok(Self { ident, expr })
    }
}
