use crate::{
    binrw::parser::{attrs, TrySet},
    meta_types::{Enclosure, IdentPatType, IdentTypeMaybeDefault, KeywordToken},
};
use syn::{Ident, Type};

#[derive(Debug, Clone, Default)]
pub(crate) enum Imports {
    #[default]
    None,
    Raw(Ident, Box<Type>),
    List(Vec<Ident>, Vec<Type>),
    Named(Vec<IdentTypeMaybeDefault>),
}

fn imports_from_attr(list: Enclosure<IdentPatType, IdentTypeMaybeDefault>) -> Imports {
    match list {
        Enclosure::Paren { fields, .. } => {
            if fields.is_empty() {
                Imports::None
            } else {
                let (idents, tys) = fields
                    .into_iter()
                    .map(|field| (field.ident, field.ty))
                    .unzip();
                Imports::List(idents, tys)
            }
        }
        Enclosure::Brace { fields, .. } => {
            if fields.is_empty() {
                Imports::None
            } else {
                Imports::Named(fields.into_iter().collect())
            }
        }
    }
}

impl From<attrs::Import> for Imports {
    fn from(value: attrs::Import) -> Self {
        imports_from_attr(value.list)
    }
}

impl From<attrs::ImportRaw> for Imports {
    fn from(value: attrs::ImportRaw) -> Self {
        Imports::Raw(value.value.ident, value.value.ty.into())
    }
}

impl<T: Into<Imports> + KeywordToken> TrySet<Imports> for T {
    fn try_set(self, to: &mut Imports) -> syn::Result<()> {
        if matches!(*to, Imports::None) {
            *to = self.into();
            Ok(())
        } else {
            Err(syn::Error::new(
                self.keyword_span(),
                "conflicting import keyword",
            ))
        }
    }
}
