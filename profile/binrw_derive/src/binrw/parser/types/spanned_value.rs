use crate::meta_types::KeywordToken;
use proc_macro2::Span;

#[derive(Debug, Clone)]
pub(crate) struct SpannedValue<T> {
    value: T,
    span: Span,
}

impl<T> SpannedValue<T> {
    pub(crate) fn new(value: T, span: Span) -> Self {
        Self { value, span }
    }

    #[cfg(feature = "verbose-backtrace")]
    pub(crate) fn into_value(self) -> T {
        self.value
    }
}

impl<T> AsRef<T> for SpannedValue<T> {
    fn as_ref(&self) -> &T {
        &self.value
    }
}

impl<T> core::ops::Deref for SpannedValue<T> {
    type Target = T;

    fn deref(&self) -> &T {
        &self.value
    }
}

// It is not possible to implement this *and* ToTokens because syn has a generic
// implementation of Spanned for all ToTokens
impl<T> syn::spanned::Spanned for SpannedValue<T> {
    fn span(&self) -> Span {
        self.span
    }
}

impl<T: Into<To> + KeywordToken, To> From<T> for SpannedValue<To> {
    fn from(value: T) -> Self {
        let span = value.keyword_span();
        Self {
            value: value.into(),
            span,
        }
    }
}
