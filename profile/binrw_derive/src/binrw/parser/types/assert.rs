use crate::{
    binrw::{codegen::sanitization::THIS, parser::attrs},
    meta_types::KeywordToken,
};
use proc_macro2::{Ident, Span, TokenStream};
use quote::{quote, ToTokens};
use syn::fold::Fold;
use syn::{parse::Parse, spanned::Spanned, token::Token, Expr, ExprLit, Lit};

#[derive(Debug, Clone)]
pub(crate) enum Error {
    Message(TokenStream),
    Error(TokenStream),
}

#[derive(Debug, Clone)]
pub(crate) struct Assert {
    pub(crate) kw_span: Span,
    pub(crate) condition: TokenStream,
    /// `true` if the condition was written with `self`, in the [`condition`] it is replaced with
    /// `this`. This enables backwards compatibility with asserts that did not use `self`.
    pub(crate) condition_uses_self: bool,
    pub(crate) consequent: Error,
}

impl<K: Parse + Spanned + Token> TryFrom<attrs::AssertLike<K>> for Assert {
    type Error = syn::Error;

    fn try_from(value: attrs::AssertLike<K>) -> Result<Self, Self::Error> {
        let kw_span = value.keyword_span();
        let mut args = value.fields.iter();

        let Some(condition) = args.next() else {
            return Err(Self::Error::new(
                kw_span,
                format!(
                    "{} requires a boolean expression as an argument",
                    value.dyn_display()
                ),
            ));
        };

        let consequent = match args.next() {
            Some(Expr::Lit(ExprLit {
                lit: Lit::Str(message),
                ..
            })) => Error::Message(quote! {
                extern crate alloc;
                alloc::format!(#message #(, #args)*)
            }),
            Some(error) => {
                super::assert_all_args_consumed(args, value.keyword_span())?;
                Error::Error(error.to_token_stream())
            }
            None => Error::Message({
                let condition = condition.to_token_stream().to_string();
                quote! {
                    extern crate alloc;
                    alloc::format!("assertion failed: `{}`", #condition)
                }
            }),
        };

        // ignores any alternative declaration of `self` in the condition, but
        // asserts should be simple so that shouldn't be a problem
        let mut self_replacer = ReplaceSelfWithThis { uses_self: false };
        let condition = self_replacer.fold_expr(condition.clone());

        Ok(Self {
            kw_span,
            condition: condition.into_token_stream(),
            condition_uses_self: self_replacer.uses_self,
            consequent,
        })
    }
}

struct ReplaceSelfWithThis {
    uses_self: bool,
}

impl Fold for ReplaceSelfWithThis {
    fn fold_ident(&mut self, i: Ident) -> Ident {
        if i == "self" {
            self.uses_self = true;
            THIS.to_ident(i.span())
        } else {
            i
        }
    }
}
