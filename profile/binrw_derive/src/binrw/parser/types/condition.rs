use crate::binrw::parser::attrs;
use proc_macro2::TokenStream;
use quote::ToTokens;
use syn::spanned::Spanned;

#[derive(Debug, Clone)]
pub(crate) struct Condition {
    pub(crate) condition: TokenStream,
    pub(crate) alternate: Option<TokenStream>,
}

impl TryFrom<attrs::If> for Condition {
    type Error = syn::Error;

    fn try_from(value: attrs::If) -> Result<Self, Self::Error> {
        let mut args = value.fields.iter();

        let condition = if let Some(cond) = args.next() {
            cond.into_token_stream()
        } else {
            return Err(Self::Error::new(
                value.ident.span(),
                "`if` requires a boolean expression as an argument",
            ));
        };

        let alternate = args.next().map(ToTokens::into_token_stream);

        super::assert_all_args_consumed(args, value.ident.span())?;

        Ok(Self {
            condition,
            alternate,
        })
    }
}
