mod assert;
mod cond_endian;
mod condition;
mod enum_error_mode;
mod err_context;
mod field_mode;
mod imports;
mod magic;
mod map;
mod passed_args;
mod spanned_value;

pub(crate) use assert::{Assert, Error as AssertionError};
pub(crate) use cond_endian::CondEndian;
pub(crate) use condition::Condition;
pub(crate) use enum_error_mode::EnumErrorMode;
pub(crate) use err_context::ErrContext;
pub(crate) use field_mode::FieldMode;
pub(crate) use imports::Imports;
pub(crate) use magic::Magic;
pub(crate) use map::Map;
pub(crate) use passed_args::PassedArgs;
pub(crate) use spanned_value::SpannedValue;

fn assert_all_args_consumed<Iter, IterItem>(
    args: Iter,
    default_span: proc_macro2::Span,
) -> syn::Result<()>
where
    IterItem: syn::spanned::Spanned,
    Iter: Iterator<Item = IterItem>,
{
    let mut extra_span = None::<proc_macro2::Span>;
    for extra_arg in args {
        let arg_span = extra_arg.span();
        if let Some(span) = extra_span {
            // This join will fail if the `proc_macro_span` feature is
            // unavailable. Falling back to the `ident` span is better than
            // doing nothing.
            if let Some(new_span) = span.join(arg_span) {
                extra_span = Some(new_span);
            } else {
                extra_span = Some(default_span);
                break;
            }
        } else {
            extra_span = Some(arg_span);
        }
    }

    extra_span.map_or(Ok(()), |span| {
        Err(syn::Error::new(span, "too many arguments"))
    })
}
