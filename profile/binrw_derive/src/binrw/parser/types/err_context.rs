use crate::{binrw::parser::keywords, meta_types::MetaList};

#[derive(Debug, Clone)]
pub(crate) enum ErrContext {
    Context(Box<syn::Expr>),
    Format(syn::LitStr, Vec<syn::Expr>),
}

impl TryFrom<MetaList<keywords::err_context, syn::Expr>> for ErrContext {
    type Error = syn::Error;

    fn try_from(value: MetaList<keywords::err_context, syn::Expr>) -> Result<Self, Self::Error> {
        if value.fields.is_empty() {
            Err(syn::Error::new_spanned(
                value.ident,
                "err_context requires a value but none were given",
            ))
        } else if let Some(format) = lit_str(&value.fields[0]) {
            Ok(ErrContext::Format(
                format.clone(),
                value.fields.into_iter().skip(1).collect(),
            ))
        } else if value.fields.len() == 1 {
            Ok(ErrContext::Context(Box::new(value.fields[0].clone())))
        } else {
            Err(syn::Error::new_spanned(
                &value.fields[0],
                "format string expected",
            ))
        }
    }
}

fn lit_str(expr: &syn::Expr) -> Option<&syn::LitStr> {
    if let syn::Expr::Lit(syn::ExprLit {
        lit: syn::Lit::Str(lit_str),
        ..
    }) = expr
    {
        Some(lit_str)
    } else {
        None
    }
}
