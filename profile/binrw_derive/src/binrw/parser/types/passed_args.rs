use super::SpannedValue;
use crate::{
    binrw::parser::{attrs, TrySet},
    meta_types::{Enclosure, KeywordToken},
};
use proc_macro2::{Span, TokenStream};
use quote::ToTokens;
use syn::spanned::Spanned;

#[derive(Debug, Clone, Default)]
pub(crate) enum PassedArgs {
    #[default]
    None,
    List(SpannedValue<Vec<TokenStream>>),
    Tuple(SpannedValue<TokenStream>),
    Named(SpannedValue<Vec<TokenStream>>),
}

impl PassedArgs {
    pub(crate) fn is_some(&self) -> bool {
        !matches!(self, Self::None)
    }

    pub(crate) fn span(&self) -> Option<Span> {
        match self {
            PassedArgs::None => None,
            PassedArgs::Tuple(s) => Some(s.span()),
            PassedArgs::List(s) | PassedArgs::Named(s) => Some(s.span()),
        }
    }
}

impl From<attrs::Args> for PassedArgs {
    fn from(args: attrs::Args) -> Self {
        match args.list {
            Enclosure::Brace { fields, .. } => Self::Named(SpannedValue::new(
                fields
                    .into_iter()
                    .map(ToTokens::into_token_stream)
                    .collect(),
                args.ident.span(),
            )),
            Enclosure::Paren { fields, .. } => Self::List(SpannedValue::new(
                fields
                    .into_iter()
                    .map(ToTokens::into_token_stream)
                    .collect(),
                args.ident.span(),
            )),
        }
    }
}

impl From<attrs::ArgsRaw> for PassedArgs {
    fn from(args: attrs::ArgsRaw) -> Self {
        Self::Tuple(SpannedValue::new(
            args.value.into_token_stream(),
            args.ident.span(),
        ))
    }
}

impl<T: Into<PassedArgs> + KeywordToken> TrySet<PassedArgs> for T {
    fn try_set(self, to: &mut PassedArgs) -> syn::Result<()> {
        if matches!(*to, PassedArgs::None) {
            *to = self.into();
            Ok(())
        } else {
            Err(syn::Error::new(
                self.keyword_span(),
                "conflicting args keyword",
            ))
        }
    }
}
