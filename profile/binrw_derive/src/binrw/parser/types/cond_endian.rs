use crate::{
    binrw::{
        codegen::sanitization::ENDIAN_ENUM,
        parser::{attrs, TrySet},
    },
    meta_types::KeywordToken,
};
use proc_macro2::TokenStream;
use quote::{quote, ToTokens, TokenStreamExt};

#[derive(Clone, Copy, Debug)]
pub(crate) enum Endian {
    Big,
    Little,
}

impl Endian {
    pub(crate) fn flipped(self) -> Self {
        match self {
            Self::Big => Self::Little,
            Self::Little => Self::Big,
        }
    }
}

impl ToTokens for Endian {
    fn to_tokens(&self, tokens: &mut TokenStream) {
        match self {
            Endian::Big => tokens.append_all(quote! { #ENDIAN_ENUM::Big }),
            Endian::Little => tokens.append_all(quote! { #ENDIAN_ENUM::Little }),
        }
    }
}

#[derive(Clone, Debug)]
pub(crate) enum CondEndian {
    Inherited,
    Fixed(Endian),
    Cond(Endian, TokenStream),
}

impl Default for CondEndian {
    fn default() -> Self {
        Self::Inherited
    }
}

impl From<attrs::Big> for CondEndian {
    fn from(_: attrs::Big) -> Self {
        Self::Fixed(Endian::Big)
    }
}

impl From<attrs::Little> for CondEndian {
    fn from(_: attrs::Little) -> Self {
        Self::Fixed(Endian::Little)
    }
}

impl From<attrs::IsBig> for CondEndian {
    fn from(is_big: attrs::IsBig) -> Self {
        Self::Cond(Endian::Big, is_big.value.to_token_stream())
    }
}

impl From<attrs::IsLittle> for CondEndian {
    fn from(is_little: attrs::IsLittle) -> Self {
        Self::Cond(Endian::Little, is_little.value.to_token_stream())
    }
}

impl<T: Into<CondEndian> + KeywordToken> TrySet<CondEndian> for T {
    fn try_set(self, to: &mut CondEndian) -> syn::Result<()> {
        if matches!(*to, CondEndian::Inherited) {
            *to = self.into();
            Ok(())
        } else {
            Err(syn::Error::new(
                self.keyword_span(),
                "conflicting endianness keyword",
            ))
        }
    }
}
