use crate::{
    binrw::parser::{attrs, TrySet},
    meta_types::KeywordToken,
};
use proc_macro2::TokenStream;
use quote::ToTokens;

#[derive(Clone, Debug)]
pub(crate) enum FieldMode {
    Normal,
    Default,
    Calc(TokenStream),
    TryCalc(TokenStream),
    Function(TokenStream),
}

impl Default for FieldMode {
    fn default() -> Self {
        Self::Normal
    }
}

impl From<attrs::Ignore> for FieldMode {
    fn from(_: attrs::Ignore) -> Self {
        Self::Default
    }
}

impl From<attrs::Default> for FieldMode {
    fn from(_: attrs::Default) -> Self {
        Self::Default
    }
}

impl From<attrs::Calc> for FieldMode {
    fn from(calc: attrs::Calc) -> Self {
        Self::Calc(calc.into_token_stream())
    }
}

impl From<attrs::TryCalc> for FieldMode {
    fn from(calc: attrs::TryCalc) -> Self {
        Self::TryCalc(calc.into_token_stream())
    }
}

impl From<attrs::ParseWith> for FieldMode {
    fn from(parse_with: attrs::ParseWith) -> Self {
        Self::Function(parse_with.into_token_stream())
    }
}

impl From<attrs::WriteWith> for FieldMode {
    fn from(write_with: attrs::WriteWith) -> Self {
        Self::Function(write_with.into_token_stream())
    }
}

impl<T: Into<FieldMode> + KeywordToken> TrySet<FieldMode> for T {
    fn try_set(self, to: &mut FieldMode) -> syn::Result<()> {
        if matches!(*to, FieldMode::Normal) {
            *to = self.into();
            Ok(())
        } else {
            Err(syn::Error::new(
                self.keyword_span(),
                "conflicting read mode keyword",
            ))
        }
    }
}
