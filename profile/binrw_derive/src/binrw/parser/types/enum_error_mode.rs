use crate::{
    binrw::parser::{attrs, TrySet},
    meta_types::KeywordToken,
};

#[derive(Debug, Copy, Clone, Eq, PartialEq)]
pub(crate) enum EnumErrorMode {
    Default,
    ReturnAllErrors,
    ReturnUnexpectedError,
}

impl Default for EnumErrorMode {
    fn default() -> Self {
        Self::Default
    }
}

impl From<attrs::ReturnAllErrors> for EnumErrorMode {
    fn from(_: attrs::ReturnAllErrors) -> Self {
        Self::ReturnAllErrors
    }
}

impl From<attrs::ReturnUnexpectedError> for EnumErrorMode {
    fn from(_: attrs::ReturnUnexpectedError) -> Self {
        Self::ReturnUnexpectedError
    }
}

impl<T: Into<EnumErrorMode> + KeywordToken> TrySet<EnumErrorMode> for T {
    fn try_set(self, to: &mut EnumErrorMode) -> syn::Result<()> {
        if *to == EnumErrorMode::Default {
            *to = self.into();
            Ok(())
        } else {
            Err(syn::Error::new(
                self.keyword_span(),
                "conflicting error handling keyword",
            ))
        }
    }
}
