use super::SpannedValue;
use crate::{binrw::parser::attrs, meta_types::KeywordToken};
use proc_macro2::TokenStream;
use quote::{quote, ToTokens};
use syn::Lit;

#[derive(PartialEq, Eq, Hash, Clone, Debug, PartialOrd, Ord)]
pub(crate) enum Kind {
    Numeric(String),
    ByteStr(String),
}

impl From<&Kind> for TokenStream {
    fn from(kind: &Kind) -> Self {
        match kind {
            Kind::ByteStr(ty) | Kind::Numeric(ty) => {
                let ty: TokenStream = ty.parse().unwrap();
                quote! { #ty }
            }
        }
    }
}

pub(crate) type Magic = Option<SpannedValue<Inner>>;

#[derive(Clone, Debug)]
pub(crate) struct Inner(Kind, TokenStream);

impl Inner {
    pub(crate) fn add_ref(&self) -> TokenStream {
        match &self.0 {
            Kind::ByteStr(_) => quote! { & },
            Kind::Numeric(_) => TokenStream::new(),
        }
    }

    pub(crate) fn deref_value(&self) -> TokenStream {
        match self.0 {
            Kind::ByteStr(_) => {
                let value = &self.1;
                quote! { *#value }
            }
            Kind::Numeric(_) => self.1.clone(),
        }
    }

    pub(crate) fn kind(&self) -> &Kind {
        &self.0
    }

    pub(crate) fn match_value(&self) -> &TokenStream {
        &self.1
    }

    #[cfg(feature = "verbose-backtrace")]
    pub(crate) fn into_match_value(self) -> TokenStream {
        self.1
    }
}

impl TryFrom<attrs::Magic> for SpannedValue<Inner> {
    type Error = syn::Error;

    fn try_from(magic: attrs::Magic) -> Result<Self, Self::Error> {
        let value = &magic.value;

        let kind = match &value {
            Lit::ByteStr(bytes) => Kind::ByteStr(format!("[u8; {}]", bytes.value().len())),
            Lit::Byte(_) => Kind::Numeric("u8".to_owned()),
            Lit::Int(i) => {
                if i.suffix().is_empty() {
                    return Err(syn::Error::new(
                        value.span(),
                        format!("expected explicit type suffix for integer literal\ne.g {i}u64",),
                    ));
                }
                Kind::Numeric(i.suffix().to_owned())
            }
            Lit::Float(f) => {
                if f.suffix().is_empty() {
                    return Err(syn::Error::new(
                        value.span(),
                        format!(
                            "expected explicit type suffix for float literal\nvalid values are {f}f32 or {f}f64",
                        ),
                    ));
                }
                Kind::Numeric(f.suffix().to_owned())
            }
            Lit::Char(_) | Lit::Str(_) | Lit::Bool(_) | Lit::Verbatim(_) => {
                return Err(syn::Error::new(
                    value.span(),
                    "expected byte string, byte, float, or int",
                ))
            }
        };

        Ok(Self::new(
            Inner(kind, value.to_token_stream()),
            magic.keyword_span(),
        ))
    }
}
