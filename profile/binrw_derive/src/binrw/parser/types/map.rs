use crate::{
    binrw::parser::{attrs, TrySet},
    meta_types::KeywordToken,
};
use proc_macro2::TokenStream;
use quote::ToTokens;

// Lint: Makes code less clear
#[allow(clippy::enum_variant_names)]
#[derive(Clone, Debug)]
pub(crate) enum Map {
    None,
    Map(TokenStream),
    Try(TokenStream),
    Repr(TokenStream),
}

impl Map {
    pub(crate) fn as_repr(&self) -> Option<&TokenStream> {
        match self {
            Map::Repr(r) => Some(r),
            _ => None,
        }
    }

    pub(crate) fn is_some(&self) -> bool {
        !matches!(self, Self::None)
    }

    pub(crate) fn is_none(&self) -> bool {
        matches!(self, Self::None)
    }

    pub(crate) fn is_try(&self) -> bool {
        matches!(self, Self::Try(_) | Self::Repr(_))
    }
}

impl Default for Map {
    fn default() -> Self {
        Self::None
    }
}

impl From<attrs::Map> for Map {
    fn from(map: attrs::Map) -> Self {
        Self::Map(map.value.to_token_stream())
    }
}

impl From<attrs::TryMap> for Map {
    fn from(try_map: attrs::TryMap) -> Self {
        Self::Try(try_map.value.to_token_stream())
    }
}

impl From<attrs::Repr> for Map {
    fn from(repr: attrs::Repr) -> Self {
        Self::Repr(repr.value.to_token_stream())
    }
}

impl<T: Into<Map> + KeywordToken> TrySet<Map> for T {
    fn try_set(self, to: &mut Map) -> syn::Result<()> {
        if to.is_some() {
            Err(syn::Error::new(
                self.keyword_span(),
                "conflicting map keyword",
            ))
        } else {
            *to = self.into();
            Ok(())
        }
    }
}
