mod attrs;
mod field_level_attrs;
mod keywords;
mod macros;
mod top_level_attrs;
mod try_set;
mod types;

use crate::meta_types::MetaAttrList;
use crate::{
    binrw::{is_binread_attr, is_binwrite_attr, Options},
    combine_error,
};
pub(crate) use field_level_attrs::{EnumVariant, StructField, UnitEnumField};
use macros::attr_struct;
pub(crate) use top_level_attrs::{Enum, Input, Struct, UnitOnlyEnum};
use try_set::TrySet;
pub(crate) use types::*;

pub(crate) type ParseResult<T> = crate::result::PartialResult<T, syn::Error>;

trait FromAttrs<Attr: syn::parse::Parse> {
    fn try_from_attrs(attrs: &[syn::Attribute], options: Options) -> ParseResult<Self>
    where
        Self: Default + Sized,
    {
        Self::set_from_attrs(Self::default(), attrs, options)
    }

    fn set_from_attrs(mut self, attrs: &[syn::Attribute], options: Options) -> ParseResult<Self>
    where
        Self: Sized,
    {
        let attrs = attrs
            .iter()
            .filter(|attr| {
                if options.write {
                    is_binwrite_attr(attr)
                } else {
                    is_binread_attr(attr)
                }
            })
            .flat_map(
                |attr| match syn::parse2::<MetaAttrList<Attr>>(attr.tokens.clone()) {
                    Ok(list) => either::Left(list.into_iter().map(Ok)),
                    Err(err) => either::Right(core::iter::once(Err(err))),
                },
            );

        let mut all_errors = None::<syn::Error>;
        for attr in attrs {
            let result = match attr {
                Ok(attr) => self.try_set_attr(attr),
                Err(e) => Err(e),
            };

            if let Err(parse_error) = result {
                combine_error(&mut all_errors, parse_error);
            }
        }

        if let Some(error) = all_errors {
            ParseResult::Partial(self, error)
        } else {
            ParseResult::Ok(self)
        }
    }

    fn try_set_attr(&mut self, attr: Attr) -> syn::Result<()>;
}

trait FromField {
    type In;

    fn from_field(field: &Self::In, index: usize, options: Options) -> ParseResult<Self>
    where
        Self: Sized;
}

trait FromInput<Attr: syn::parse::Parse>: FromAttrs<Attr> {
    type Field: FromField + 'static;

    fn from_input<'input>(
        attrs: &'input [syn::Attribute],
        fields: impl Iterator<Item = &'input <Self::Field as FromField>::In>,
        options: Options,
    ) -> ParseResult<Self>
    where
        Self: Sized + Default,
    {
        let (mut this, mut all_errors) = Self::try_from_attrs(attrs, options).unwrap_tuple();

        this.set_options(options);

        for (index, field) in fields.enumerate() {
            let (field, mut field_error) =
                Self::Field::from_field(field, index, options).unwrap_tuple();
            if field_error.is_none() {
                field_error = this.push_field(field).err();
            }

            if let Some(field_error) = field_error {
                combine_error(&mut all_errors, field_error);
            }
        }

        if let Err(validation_error) = this.validate(options) {
            combine_error(&mut all_errors, validation_error);
        }

        if let Some(error) = all_errors {
            ParseResult::Partial(this, error)
        } else {
            ParseResult::Ok(this)
        }
    }

    fn push_field(&mut self, field: Self::Field) -> syn::Result<()>;

    fn set_options(&mut self, _: Options) {}

    fn validate(&self, _: Options) -> syn::Result<()>;
}

#[cfg(test)]
mod tests {
    use super::*;
    use proc_macro2::TokenStream;
    use syn::DeriveInput;

    #[cfg_attr(coverage_nightly, coverage(off))]
    fn try_input(input: TokenStream) -> ParseResult<Input> {
        Input::from_input(
            &syn::parse2::<DeriveInput>(input).unwrap(),
            Options {
                derive: false,
                write: false,
            },
        )
    }

    macro_rules! try_error (
        ($name:ident: $message:literal $tt:tt) => {
            #[test]
            #[cfg_attr(coverage_nightly, coverage(off))]
            #[should_panic(expected = $message)]
            fn $name() {
                try_input(quote::quote! $tt).unwrap();
            }
        };
    );

    try_error!(args_calc_conflict: "`args` is incompatible" {
        struct Foo {
            #[br(args(()), calc(None))]
            a: Option<u8>,
        }
    });

    try_error!(conflicting_keyword_bool: "conflicting `restore_position` keyword" {
        struct Foo {
            #[br(restore_position, restore_position)]
            a: i32,
        }
    });

    try_error!(conflicting_keyword_count_args_list: "did you mean `args { inner: (a,) }`" {
        struct Foo {
            a: u8,
            b: u8,
            #[br(count = b, args(a))]
            c: Vec<Item>,
        }
    });

    try_error!(conflicting_keyword_count_args_list_long: "did you mean `args { inner: (a, ...) }`" {
        struct Foo {
            a: u8,
            b: u8,
            #[br(count = b, args(a, b))]
            c: Vec<Item>,
        }
    });

    try_error!(conflicting_keyword_count_args_raw: "did you mean `args { inner: a }`" {
        struct Foo {
            a: u8,
            b: u8,
            #[br(count = b, args_raw = a)]
            c: Vec<Item>,
        }
    });

    try_error!(conflicting_keyword_cond_endian: "conflicting endianness keyword" {
        struct Foo {
            #[br(big, little, is_big = true, is_little = true)]
            a: i32,
        }
    });

    try_error!(conflicting_keyword_enum_error_mode: "conflicting error handling keyword" {
        #[br(return_all_errors, return_unexpected_error)]
        enum Foo {
            A(i32),
        }
    });

    try_error!(conflicting_keyword_imports: "conflicting import keyword" {
        #[br(import{a: i32}, import_raw(args: (i32, )))]
        struct Foo;
    });

    try_error!(conflicting_keyword_map: "conflicting map keyword" {
        struct Foo {
            #[br(map = |_| 0, try_map = |_| Ok(0))]
            a: i32,
        }
    });

    try_error!(conflicting_keyword_option: "conflicting `magic` keyword" {
        #[br(magic = 0u8, magic = 0u8)]
        struct Foo;
    });

    try_error!(conflicting_keyword_passed_args: "conflicting args keyword" {
        struct Foo {
            a: i32,
            #[br(args { a: 3 }, args_raw = (a, ))]
            b: i32,
        }
    });

    try_error!(conflicting_keyword_read_mode: "conflicting read mode keyword" {
        struct Foo {
            #[br(calc(1), default, ignore, parse_with = u8)]
            a: i32,
        }
    });

    try_error!(enum_missing_magic_repr: "requires either" {
        enum UnitEnum {
            A,
        }
    });

    try_error!(err_context_missing: "requires a value" {
        struct Foo {
            #[br(err_context())]
            a: u8,
        }
    });

    try_error!(err_context_missing_format: "format string expected" {
        struct Foo {
            #[br(err_context(a, b))]
            a: u8,
        }
    });

    try_error!(invalid_assert_args: "too many arguments" {
        #[br(assert(false, String::from("message"), "too", "many", "arguments"))]
        struct Foo;
    });

    try_error!(invalid_assert_empty: "requires a boolean expression" {
        #[br(assert())]
        struct Foo;
    });

    try_error!(invalid_if_args: "too many arguments" {
        struct Foo {
            #[br(if(false, 0, 1, 2, 3))]
            a: u8,
        }
    });

    try_error!(invalid_if_empty: "requires a boolean expression" {
        struct Foo {
            #[br(if())]
            a: u8,
        }
    });

    try_error!(invalid_keyword_enum_variant: "expected one of" {
        enum Enum {
            #[br(invalid_enum_variant_keyword)]
            A(i32),
        }
    });

    try_error!(invalid_keyword_enum: "expected one of" {
        #[br(invalid_enum_keyword)]
        enum Enum {
            A(i32),
        }
    });

    try_error!(invalid_keyword_struct_field: "expected one of" {
        struct Struct {
            #[br(invalid_struct_field_keyword)]
            field: i32,
        }
    });

    try_error!(invalid_keyword_struct: "expected one of" {
        #[br(invalid_struct_keyword)]
        struct Struct {
            field: i32,
        }
    });

    try_error!(invalid_keyword_unit_enum_field: "expected one of" {
        #[br(repr = u8)]
        enum UnitEnum {
            #[br(invalid_unit_enum_field_keyword)]
            A,
        }
    });

    try_error!(invalid_keyword_unit_enum: "expected one of" {
        #[br(invalid_unit_enum_keyword)]
        enum UnitEnum {
            #[br(magic = 0u8)]
            A,
        }
    });

    try_error!(invalid_magic_float: "expected explicit type suffix for float" {
        #[br(magic = 0.0)]
        struct Foo;
    });

    try_error!(invalid_magic_int: "expected explicit type suffix for integer" {
        #[br(magic = 0)]
        struct Foo;
    });

    try_error!(invalid_magic_type: "expected byte string, byte, float, or int" {
        #[br(magic = "invalid_type")]
        struct Foo;
    });

    try_error!(try_calc_conflict: "`try` is incompatible" {
        struct Foo {
            #[br(try, calc(None))]
            a: Option<u8>,
        }
    });

    try_error!(try_default_conflict: "`try` is incompatible" {
        struct Foo {
            #[br(try, default)]
            a: Option<u8>,
        }
    });

    // Errors on one field should not prevent the parser from surfacing errors
    // on other fields
    #[test]
    #[cfg_attr(coverage_nightly, coverage(off))]
    fn non_blocking_errors() {
        let error = try_input(quote::quote! {
            #[br(invalid_keyword_struct)]
            struct Foo {
                #[br(invalid_keyword_struct_field_a)]
                a: i32,
                #[br(invalid_keyword_struct_field_b)]
                b: i32,
            }
        })
        .err()
        .unwrap();
        assert_eq!(error.into_iter().count(), 3);
    }

    try_error!(repr_magic_conflict: "mutually exclusive" {
        #[br(repr = u8)]
        enum Foo {
            #[br(magic = 0u8)] A,
        }
    });

    try_error!(unsupported_type_enum: "null enums are not supported" {
        enum Foo {}
    });

    try_error!(unsupported_type_union: "unions are not supported" {
        union Bar {
            a: i32,
        }
    });
}
