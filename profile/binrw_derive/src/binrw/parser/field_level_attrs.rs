use super::{
    attr_struct,
    top_level_attrs::StructAttr,
    types::{Assert, CondEndian, Condition, ErrContext, FieldMode, Magic, Map, PassedArgs},
    FromAttrs, FromField, FromInput, ParseResult, SpannedValue, Struct, TrySet,
};
use crate::{binrw::Options, combine_error};
use proc_macro2::TokenStream;
use syn::spanned::Spanned;

attr_struct! {
    #[from(StructFieldAttr)]
    #[derive(Clone, Debug)]
    pub(crate) struct StructField {
        pub(crate) ident: syn::Ident,
        pub(crate) generated_ident: bool,
        pub(crate) ty: syn::Type,
        pub(crate) field: syn::Field,
        #[from(RW:Big, RW:Little, RW:IsBig, RW:IsLittle)]
        pub(crate) endian: CondEndian,
        #[from(RW:Map, RW:TryMap, RW:Repr)]
        pub(crate) map: Map,
        #[from(RW:MapStream)]
        pub(crate) map_stream: Option<TokenStream>,
        #[from(RW:Magic)]
        pub(crate) magic: Magic,
        #[from(RW:Args, RW:ArgsRaw)]
        pub(crate) args: PassedArgs,
        #[from(RW:Calc, RW:TryCalc, RO:Default, RW:Ignore, RO:ParseWith, WO:WriteWith)]
        pub(crate) field_mode: FieldMode,
        #[from(RO:Count)]
        pub(crate) count: Option<TokenStream>,
        #[from(RO:Offset)]
        pub(crate) offset: Option<TokenStream>,
        #[from(RW:If)]
        pub(crate) if_cond: Option<Condition>,
        #[from(RW:RestorePosition)]
        pub(crate) restore_position: Option<()>,
        #[from(RO:Try)]
        pub(crate) do_try: Option<SpannedValue<()>>,
        #[from(RO:Temp)]
        pub(crate) temp: Option<()>,
        #[from(RW:Assert)]
        pub(crate) assertions: Vec<Assert>,
        #[from(RO:ErrContext)]
        pub(crate) err_context: Option<ErrContext>,
        #[from(RW:PadBefore)]
        pub(crate) pad_before: Option<TokenStream>,
        #[from(RW:PadAfter)]
        pub(crate) pad_after: Option<TokenStream>,
        #[from(RW:AlignBefore)]
        pub(crate) align_before: Option<TokenStream>,
        #[from(RW:AlignAfter)]
        pub(crate) align_after: Option<TokenStream>,
        #[from(RW:SeekBefore)]
        pub(crate) seek_before: Option<TokenStream>,
        #[from(RW:PadSizeTo)]
        pub(crate) pad_size_to: Option<TokenStream>,
        #[from(RO:Debug)] // TODO is this really RO?
        pub(crate) debug: Option<()>,
    }
}

impl StructField {
    /// Returns true if this field is generated using a calculated value instead
    /// of a parser.
    pub(crate) fn generated_value(&self) -> bool {
        matches!(
            self.field_mode,
            FieldMode::TryCalc(_) | FieldMode::Calc(_) | FieldMode::Default
        )
    }

    /// Returns true if the field is handled as a temporary variable instead of
    /// an actual field.
    pub(crate) fn is_temp(&self, for_write: bool) -> bool {
        (for_write && matches!(self.field_mode, FieldMode::TryCalc(_) | FieldMode::Calc(_)))
            || self.temp.is_some()
    }

    /// Returns true if the field is actually written.
    pub(crate) fn is_written(&self) -> bool {
        !matches!(self.field_mode, FieldMode::Default)
    }

    /// Returns true if the field requires arguments.
    pub(crate) fn needs_args(&self) -> bool {
        self.args.is_some() || self.count.is_some() || self.offset.is_some()
    }

    /// Returns true if the field overrides endianness.
    pub(crate) fn needs_endian(&self) -> bool {
        !matches!(self.endian, CondEndian::Inherited)
    }

    /// Returns true if the field is using shorthand directives that are
    /// converted into named arguments.
    pub(crate) fn has_named_arg_directives(&self) -> bool {
        self.count.is_some() || self.offset.is_some()
    }

    /// Returns true if the only field-level attributes are asserts
    pub(crate) fn has_no_attrs(&self) -> bool {
        macro_rules! all_fields_none {
            ($($field:ident),*) => {
                $(
                    self.$field.is_none() &&
                )*

                true
            }
        }

        matches!(self.endian, CondEndian::Inherited)
            && matches!(self.map, Map::None)
            && matches!(self.args, PassedArgs::None)
            && matches!(self.field_mode, FieldMode::Normal)
            && all_fields_none!(
                count,
                offset,
                if_cond,
                restore_position,
                do_try,
                temp,
                pad_before,
                pad_after,
                align_before,
                align_after,
                seek_before,
                pad_size_to,
                magic
            )
    }

    /// Forces the field to be treated as a temporary variable even if it was
    /// not explicitly specified by a directive.
    ///
    /// This is used to ensure that, when combining read and write on a single
    /// type, a field specified as temporary on one side is treated as a
    /// temporary on both sides.
    pub(crate) fn force_temp(&mut self) {
        self.temp = Some(());
    }

    fn validate(&self, _: Options) -> syn::Result<()> {
        let mut all_errors = None::<syn::Error>;

        if self.do_try.is_some() && self.generated_value() {
            //TODO: join with span of read mode somehow
            let span = self.do_try.as_ref().unwrap().span();
            combine_error(
                &mut all_errors,
                syn::Error::new(
                    span,
                    "`try` is incompatible with `default`, `calc`, and `try_calc`",
                ),
            );
        }

        if matches!(self.field_mode, FieldMode::TryCalc(_) | FieldMode::Calc(_))
            && self.args.is_some()
        {
            // TODO: Correct span (args + calc keywords)
            combine_error(
                &mut all_errors,
                syn::Error::new(
                    self.field.span(),
                    "`args` is incompatible with `calc` and `try_calc`",
                ),
            );
        }

        if self.has_named_arg_directives()
            && !matches!(self.args, PassedArgs::None | PassedArgs::Named(..))
        {
            let (span, repr) = match &self.args {
                PassedArgs::Named(_) | PassedArgs::None => unreachable!(),
                PassedArgs::List(list) => (
                    list.span(),
                    format!(
                        "({},{})",
                        list.first().map_or_else(<_>::default, ToString::to_string),
                        if list.len() > 1 { " ..." } else { "" }
                    ),
                ),
                PassedArgs::Tuple(raw) => (raw.span(), raw.to_string()),
            };

            for (used, name) in [
                (self.count.is_some(), "count"),
                (self.offset.is_some(), "offset"),
            ] {
                if used {
                    combine_error(&mut all_errors, syn::Error::new(
                        span,
                        format!("`{name}` can only be used with named args; did you mean `args {{ inner: {repr} }}`?")
                    ));
                }
            }
        }

        if let Some(error) = all_errors {
            Err(error)
        } else {
            Ok(())
        }
    }
}

impl FromField for StructField {
    type In = syn::Field;

    fn from_field(field: &Self::In, index: usize, options: Options) -> ParseResult<Self> {
        let this = Self {
            ident: field
                .ident
                .clone()
                .unwrap_or_else(|| quote::format_ident!("self_{}", index)),
            generated_ident: field.ident.is_none(),
            ty: field.ty.clone(),
            field: field.clone(),
            endian: <_>::default(),
            map: <_>::default(),
            map_stream: <_>::default(),
            magic: <_>::default(),
            args: <_>::default(),
            field_mode: <_>::default(),
            count: <_>::default(),
            offset: <_>::default(),
            if_cond: <_>::default(),
            restore_position: <_>::default(),
            do_try: <_>::default(),
            temp: <_>::default(),
            assertions: <_>::default(),
            pad_before: <_>::default(),
            pad_after: <_>::default(),
            align_before: <_>::default(),
            align_after: <_>::default(),
            seek_before: <_>::default(),
            pad_size_to: <_>::default(),
            #[cfg(feature = "verbose-backtrace")]
            keyword_spans: <_>::default(),
            err_context: <_>::default(),
            debug: <_>::default(),
        };

        let result = if options.write {
            <Self as FromAttrs<StructFieldAttr<true>>>::set_from_attrs(this, &field.attrs, options)
        } else {
            <Self as FromAttrs<StructFieldAttr<false>>>::set_from_attrs(this, &field.attrs, options)
        };

        match result {
            ParseResult::Ok(this) => {
                if let Err(error) = this.validate(options) {
                    ParseResult::Partial(this, error)
                } else {
                    ParseResult::Ok(this)
                }
            }
            ParseResult::Partial(this, mut parse_error) => {
                if let Err(error) = this.validate(options) {
                    parse_error.combine(error);
                }
                ParseResult::Partial(this, parse_error)
            }
            ParseResult::Err(error) => ParseResult::Err(error),
        }
    }
}

attr_struct! {
    #[from(UnitEnumFieldAttr)]
    #[derive(Clone, Debug)]
    pub(crate) struct UnitEnumField {
        pub(crate) ident: syn::Ident,
        #[from(RW:Magic)]
        pub(crate) magic: Magic,
        #[from(RO:PreAssert)]
        pub(crate) pre_assertions: Vec<Assert>,
    }
}

impl From<UnitEnumField> for Struct {
    fn from(value: UnitEnumField) -> Self {
        Self {
            magic: value.magic,
            pre_assertions: value.pre_assertions,
            ..<_>::default()
        }
    }
}

impl FromField for UnitEnumField {
    type In = syn::Variant;

    fn from_field(field: &Self::In, _: usize, options: Options) -> ParseResult<Self> {
        let this = Self {
            ident: field.ident.clone(),
            magic: <_>::default(),
            pre_assertions: <_>::default(),
            #[cfg(feature = "verbose-backtrace")]
            keyword_spans: <_>::default(),
        };

        if options.write {
            <Self as FromAttrs<UnitEnumFieldAttr<true>>>::set_from_attrs(
                this,
                &field.attrs,
                options,
            )
        } else {
            <Self as FromAttrs<UnitEnumFieldAttr<false>>>::set_from_attrs(
                this,
                &field.attrs,
                options,
            )
        }
    }
}

#[derive(Clone, Debug)]
pub(crate) enum EnumVariant {
    Variant {
        ident: syn::Ident,
        options: Box<Struct>,
    },
    Unit(UnitEnumField),
}

impl EnumVariant {
    pub(crate) fn ident(&self) -> &syn::Ident {
        match self {
            EnumVariant::Variant { ident, .. } => ident,
            EnumVariant::Unit(field) => &field.ident,
        }
    }

    pub(crate) fn has_no_attrs(&self) -> bool {
        match self {
            Self::Variant { options, .. } => options.has_no_attrs(),
            Self::Unit(_) => true,
        }
    }
}

impl From<EnumVariant> for Struct {
    fn from(value: EnumVariant) -> Self {
        match value {
            EnumVariant::Variant { options, .. } => *options,
            EnumVariant::Unit(options) => options.into(),
        }
    }
}

impl FromField for EnumVariant {
    type In = syn::Variant;

    fn from_field(variant: &Self::In, index: usize, options: Options) -> ParseResult<Self> {
        match variant.fields {
            syn::Fields::Named(_) | syn::Fields::Unnamed(_) => if options.write {
                <Struct as FromInput<StructAttr<true>>>::from_input(
                    &variant.attrs,
                    variant.fields.iter(),
                    options,
                )
            } else {
                <Struct as FromInput<StructAttr<false>>>::from_input(
                    &variant.attrs,
                    variant.fields.iter(),
                    options,
                )
            }
            .map(|options| Self::Variant {
                ident: variant.ident.clone(),
                options: Box::new(options),
            }),
            syn::Fields::Unit => UnitEnumField::from_field(variant, index, options).map(Self::Unit),
        }
    }
}
