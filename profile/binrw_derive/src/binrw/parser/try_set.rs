use crate::meta_types::KeywordToken;

pub(crate) trait TrySet<T> {
    fn try_set(self, to: &mut T) -> syn::Result<()>;
}

// TODO: This sucks
pub(crate) enum TrySetError {
    Infallible,
    Syn(syn::Error),
}

impl From<core::convert::Infallible> for TrySetError {
    fn from(_: core::convert::Infallible) -> Self {
        Self::Infallible
    }
}

impl From<syn::Error> for TrySetError {
    fn from(error: syn::Error) -> Self {
        Self::Syn(error)
    }
}

impl<T: TryInto<To, Error = E> + KeywordToken, E: Into<TrySetError>, To> TrySet<Option<To>> for T {
    fn try_set(self, to: &mut Option<To>) -> syn::Result<()> {
        if to.is_none() {
            *to = Some(self.try_into().map_err(|error| match error.into() {
                TrySetError::Infallible => unreachable!(),
                TrySetError::Syn(error) => error,
            })?);
            Ok(())
        } else {
            Err(syn::Error::new(
                self.keyword_span(),
                format!("conflicting {} keyword", self.dyn_display()),
            ))
        }
    }
}

impl<T: TryInto<To, Error = syn::Error> + KeywordToken, To> TrySet<Vec<To>> for T {
    fn try_set(self, to: &mut Vec<To>) -> syn::Result<()> {
        to.push(self.try_into()?);
        Ok(())
    }
}
