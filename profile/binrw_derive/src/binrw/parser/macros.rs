/// Attempt to parse variants in order until a match is found
macro_rules! parse_any {
    ($vis:vis enum $enum:ident {
        $(
            $variant:ident($ty:ty)
        ),*
        $(,)?
    }) => {
        $vis enum $enum<const WRITE: bool> {
            $(
                $variant($ty)
            ),*
        }

        impl<const WRITE: bool> ::syn::parse::Parse for $enum<WRITE> {
            fn parse(input: ::syn::parse::ParseStream<'_>) -> ::syn::Result<Self> {
                use $crate::binrw::parser::macros::RwMarker;
                $(if (<$ty as RwMarker>::READ == !WRITE || <$ty as RwMarker>::WRITE == WRITE) && <<$ty as $crate::meta_types::KeywordToken>::Token as ::syn::token::Token>::peek(input.cursor()) {
                    input.parse().map(Self::$variant)
                } else)* {
                    let mut error = String::from("expected one of: ");
                    $(
                        if <$ty as RwMarker>::READ == !WRITE || <$ty as RwMarker>::WRITE == WRITE {
                            error.push_str(<$ty as $crate::meta_types::KeywordToken>::display());
                            error.push_str(", ");
                        }
                    )*
                    error.truncate(error.len() - 2);
                    Err(input.error(error))
                }
            }
        }
    };
}

pub(super) use parse_any;

// The way this works sucks for a couple reasons which are not really worth
// dealing with right now, but maybe are worth dealing with in the future:
//
// 1. Using a separate enum just for parsing, instead of implementing parsing
// within a generated struct, shouldn’t really be necessary, but seemed to be
// the simplest to make everything work within the confines of the syn API.
// There is no way to get a `ParseStream` in syn other than to implement
// `syn::parse::Parse`, and that API return signature is `Result<Self>`, but the
// parser should to be able to return partial results instead (as it does now),
// so it’d be necessary to instead implement `Parse` for `PartialResult` and
// then go through an internal API that actually does parsing (and probably also
// reimplements other stuff like `Punctuated` since there would no longer be a
// type containing all the possible directives). It would be possible also to
// attach errors to the structs themselves, but it did not seem like the extra
// work to move non-fatal errors there was really worth the added effort since
// the current design was already written and functioning.
//
// 2. The variant-to-field mapping is awful. The `from` attributes should be
// taking types instead of idents, but can’t because then there would be no way
// to generate the enum variants. Variant names could be provided separately,
// but this would clutter the call sites for no particularly good reason—the
// types are normalised enough that it’s possible to just fill out the rest of
// the type here, even though it’s a nasty obfuscation that will confuse anyone
// that doesn’t look at what the macro is doing.
//
// So, you know… here be dragons, and I’m sorry in advance.
macro_rules! attr_struct {
    (
        #[from($attr_ty:ident)]
        $(#[$meta:meta])*
        $vis:vis struct $ident:ident {
        $(
            $(#[doc = $field_doc:literal])*
            $(#[cfg($($cfg_ident:tt)*)])?
            $(#[from($($field_rw:ident : $field_attr_id:ident),+)])?
            $field_vis:vis $field:ident : $field_ty:ty
        ),+ $(,)?
        }
    ) => {
        $(#[$meta])*
        $vis struct $ident {
            $(
                $(#[cfg($($cfg_ident)*)])?
                $(#[doc = $field_doc])*
                $field_vis $field: $field_ty,
            )+

            #[cfg(feature = "verbose-backtrace")]
            pub(crate) keyword_spans: Vec<proc_macro2::Span>,
        }

        impl<const WRITE: bool> $crate::binrw::parser::FromAttrs<$attr_ty<WRITE>> for $ident {
            fn try_set_attr(&mut self, attr: $attr_ty<WRITE>) -> ::syn::Result<()> {
                #[cfg(feature = "verbose-backtrace")]
                use crate::meta_types::KeywordToken;
                match attr {
                    $($(
                        $($attr_ty::$field_attr_id(value) => {
                            #[cfg(feature = "verbose-backtrace")]
                            self.keyword_spans.push(value.keyword_span());
                            value.into_inner().try_set(&mut self.$field)
                        },)+
                    )?)+
                }
            }
        }

        $crate::binrw::parser::macros::parse_any! {
            $vis enum $attr_ty {
                $($(
                    $($field_attr_id($crate::binrw::parser::macros::$field_rw<$crate::binrw::parser::attrs::$field_attr_id>),)+
                )?)+
            }
        }
    }
}

pub(super) use attr_struct;

pub(super) trait RwMarker {
    const READ: bool;
    const WRITE: bool;
}

macro_rules! rw_marker {
    ($ident:ident, $read:literal, $write:literal) => {
        pub(crate) struct $ident<T>(T);

        impl<T> $ident<T> {
            pub(super) fn into_inner(self) -> T {
                self.0
            }
        }

        impl<T> RwMarker for $ident<T> {
            const READ: bool = $read;
            const WRITE: bool = $write;
        }

        impl<T: crate::meta_types::KeywordToken> crate::meta_types::KeywordToken for $ident<T> {
            type Token = T::Token;

            fn keyword_span(&self) -> proc_macro2::Span {
                T::keyword_span(&self.0)
            }
        }

        impl<T: syn::parse::Parse> syn::parse::Parse for $ident<T> {
            fn parse(input: syn::parse::ParseStream<'_>) -> syn::Result<Self> {
                T::parse(input).map(Self)
            }
        }
    };
}

rw_marker!(RO, true, false);
rw_marker!(WO, false, true);
rw_marker!(RW, true, true);
