use super::{
    attr_struct,
    types::{Assert, CondEndian, EnumErrorMode, Imports, Magic, Map},
    EnumVariant, FromInput, ParseResult, StructField, TrySet, UnitEnumField,
};
use crate::binrw::Options;
use proc_macro2::TokenStream;
use quote::ToTokens;
use syn::{spanned::Spanned, Ident};

/// The parsed representation of binrw attributes on a data structure.
pub(crate) enum Input {
    /// A normal or tuple struct.
    Struct(Struct),
    /// A unit struct.
    UnitStruct(Struct),
    /// An enum with at least one data variant.
    Enum(Enum),
    /// An enum containing only unit variants.
    UnitOnlyEnum(UnitOnlyEnum),
}

impl Input {
    /// Tries parsing the binrw attributes on a data structure.
    pub(crate) fn from_input(input: &syn::DeriveInput, options: Options) -> ParseResult<Self> {
        let attrs = &input.attrs;
        let ident = Some(&input.ident);
        match &input.data {
            syn::Data::Struct(st) => {
                let read_struct = if options.write {
                    <Struct as FromInput<StructAttr<true>>>::from_input(
                        attrs,
                        st.fields.iter(),
                        options,
                    )
                } else {
                    <Struct as FromInput<StructAttr<false>>>::from_input(
                        attrs,
                        st.fields.iter(),
                        options,
                    )
                };

                if matches!(st.fields, syn::Fields::Unit) {
                    read_struct.map(Self::UnitStruct)
                } else {
                    read_struct.map(Self::Struct)
                }
            }
            syn::Data::Enum(en) => {
                let variants = &en.variants;
                if variants.is_empty() {
                    ParseResult::Err(syn::Error::new(
                        input.span(),
                        "null enums are not supported",
                    ))
                } else if variants
                    .iter()
                    .all(|v| matches!(v.fields, syn::Fields::Unit))
                {
                    if options.write {
                        <UnitOnlyEnum as FromInput<UnitEnumAttr<true>>>::from_input(
                            attrs,
                            variants.iter(),
                            options,
                        )
                    } else {
                        <UnitOnlyEnum as FromInput<UnitEnumAttr<false>>>::from_input(
                            attrs,
                            variants.iter(),
                            options,
                        )
                    }
                    .map(Self::UnitOnlyEnum)
                } else {
                    if options.write {
                        <Enum as FromInput<EnumAttr<true>>>::from_input(
                            attrs,
                            variants.iter(),
                            options,
                        )
                    } else {
                        <Enum as FromInput<EnumAttr<false>>>::from_input(
                            attrs,
                            variants.iter(),
                            options,
                        )
                    }
                    .map(|mut e| {
                        e.ident = ident.cloned();
                        Self::Enum(e)
                    })
                }
            }
            syn::Data::Union(_) => {
                ParseResult::Err(syn::Error::new(input.span(), "unions are not supported"))
            }
        }
    }

    pub(crate) fn endian(&self) -> &CondEndian {
        match self {
            Input::Struct(s) | Input::UnitStruct(s) => &s.endian,
            Input::Enum(e) => &e.endian,
            Input::UnitOnlyEnum(e) => &e.endian,
        }
    }

    pub(crate) fn imports(&self) -> &Imports {
        match self {
            Input::Struct(s) | Input::UnitStruct(s) => &s.imports,
            Input::Enum(e) => &e.imports,
            Input::UnitOnlyEnum(e) => &e.imports,
        }
    }

    pub(crate) fn is_empty(&self) -> bool {
        match self {
            Input::Struct(s) => s.fields.is_empty() && s.magic.is_none(),
            Input::UnitStruct(_) => true,
            Input::Enum(e) => e.variants.is_empty() && e.magic.is_none(),
            Input::UnitOnlyEnum(_) => false,
        }
    }

    pub(crate) fn is_temp_field(&self, variant_index: usize, index: usize) -> bool {
        match self {
            Input::Struct(s) => s
                .fields
                .get(index)
                .map_or(false, |field| field.is_temp(s.for_write)),
            Input::Enum(e) => e.variants.get(variant_index).map_or(false, |variant| {
                if let EnumVariant::Variant { options, .. } = variant {
                    options
                        .fields
                        .get(index)
                        .map_or(false, |field| field.is_temp(options.for_write))
                } else {
                    false
                }
            }),
            Input::UnitStruct(_) | Input::UnitOnlyEnum(_) => false,
        }
    }

    pub(crate) fn map(&self) -> &Map {
        match self {
            Input::Struct(s) | Input::UnitStruct(s) => &s.map,
            Input::Enum(e) => &e.map,
            Input::UnitOnlyEnum(e) => &e.map,
        }
    }

    pub(crate) fn magic(&self) -> &Magic {
        match self {
            Input::Struct(s) | Input::UnitStruct(s) => &s.magic,
            Input::Enum(e) => &e.magic,
            Input::UnitOnlyEnum(e) => &e.magic,
        }
    }

    pub(crate) fn map_stream(&self) -> Option<&TokenStream> {
        match self {
            Input::Struct(s) | Input::UnitStruct(s) => s.map_stream.as_ref(),
            Input::Enum(en) => en.map_stream.as_ref(),
            Input::UnitOnlyEnum(en) => en.map_stream.as_ref(),
        }
    }

    pub(crate) fn pre_assertions(&self) -> &[Assert] {
        match self {
            Input::Struct(s) | Input::UnitStruct(s) => &s.pre_assertions,
            Input::Enum(e) => &e.pre_assertions,
            Input::UnitOnlyEnum(_) => &[],
        }
    }

    pub(crate) fn stream_ident(&self) -> Option<&Ident> {
        match self {
            Input::Struct(s) | Input::UnitStruct(s) => s.stream_ident.as_ref(),
            Input::Enum(en) => en.stream_ident.as_ref(),
            Input::UnitOnlyEnum(en) => en.stream_ident.as_ref(),
        }
    }

    pub(crate) fn stream_ident_or(&self, or: impl ToTokens) -> TokenStream {
        self.stream_ident()
            .map_or_else(|| or.to_token_stream(), ToTokens::to_token_stream)
    }

    pub(crate) fn assertions(&self) -> &[Assert] {
        match self {
            Input::Struct(s) | Input::UnitStruct(s) => &s.assertions,
            Input::Enum(e) => &e.assertions,
            Input::UnitOnlyEnum(_) => &[],
        }
    }
}

attr_struct! {
    #[from(StructAttr)]
    #[derive(Clone, Debug, Default)]
    pub(crate) struct Struct {
        #[from(RW:Stream)]
        pub(crate) stream_ident: Option<Ident>,
        #[from(RW:Big, RW:Little, RW:IsBig, RW:IsLittle)]
        pub(crate) endian: CondEndian,
        #[from(RW:Map, RW:TryMap, RW:Repr)]
        pub(crate) map: Map,
        #[from(RW:MapStream)]
        pub(crate) map_stream: Option<TokenStream>,
        #[from(RW:Magic)]
        pub(crate) magic: Magic,
        #[from(RW:Import, RW:ImportRaw)]
        pub(crate) imports: Imports,
        #[from(RW:Assert)]
        pub(crate) assertions: Vec<Assert>,
        #[from(RO:PreAssert)]
        pub(crate) pre_assertions: Vec<Assert>,
        pub(crate) fields: Vec<StructField>,
        pub(crate) for_write: bool,
    }
}

impl Struct {
    pub(crate) fn is_tuple(&self) -> bool {
        self.fields
            .first()
            .map_or(false, |field| field.generated_ident)
    }

    pub(crate) fn iter_permanent_idents(&self) -> impl Iterator<Item = &syn::Ident> + '_ {
        self.fields.iter().filter_map(move |field| {
            if field.is_temp(self.for_write) {
                None
            } else {
                Some(&field.ident)
            }
        })
    }

    pub(crate) fn has_no_attrs(&self) -> bool {
        matches!(self.endian, CondEndian::Inherited)
            && matches!(self.map, Map::None)
            && self.magic.is_none()
            && matches!(self.imports, Imports::None)
            && self.fields.iter().all(StructField::has_no_attrs)
    }

    pub(crate) fn fields_pattern(&self) -> TokenStream {
        let fields = self.iter_permanent_idents();

        if self.is_tuple() {
            quote::quote! {
                (#(ref #fields),*)
            }
        } else {
            quote::quote! {
                { #(ref #fields),* }
            }
        }
    }
}

impl<const WRITE: bool> FromInput<StructAttr<WRITE>> for Struct {
    type Field = StructField;

    fn push_field(&mut self, field: Self::Field) -> syn::Result<()> {
        self.fields.push(field);
        Ok(())
    }

    fn set_options(&mut self, options: Options) {
        self.for_write = options.write;
    }

    fn validate(&self, options: Options) -> syn::Result<()> {
        if self.map.is_none() && !options.derive {
            return Ok(());
        }

        for field in &self.fields {
            if self.map.is_some() && !field.has_no_attrs() {
                return Err(syn::Error::new(
                    field.field.span(),
                    "cannot use attributes on fields inside a struct with a struct-level `map`",
                ));
            }

            if options.derive && field.is_temp(options.write) {
                return Err(syn::Error::new(
                    field.field.span(),
                    if options.write {
                        "`#[derive(BinWrite)]` cannot create temporary fields; use `#[binrw]` or `#[binwrite]` instead"
                    } else {
                        "`#[derive(BinRead)]` cannot create temporary fields; use `#[binrw]` or `#[binread]` instead"
                    },
                ));
            }
        }

        Ok(())
    }
}

attr_struct! {
    #[from(EnumAttr)]
    #[derive(Clone, Debug, Default)]
    pub(crate) struct Enum {
        pub(crate) ident: Option<syn::Ident>,
        #[from(RW:Stream)]
        pub(crate) stream_ident: Option<Ident>,
        #[from(RW:Big, RW:Little, RW:IsBig, RW:IsLittle)]
        pub(crate) endian: CondEndian,
        #[from(RW:Map, RW:TryMap, RW:Repr)]
        pub(crate) map: Map,
        #[from(RW:MapStream)]
        pub(crate) map_stream: Option<TokenStream>,
        #[from(RW:Magic)]
        pub(crate) magic: Magic,
        #[from(RW:Import, RW:ImportRaw)]
        pub(crate) imports: Imports,
        #[from(RW:Assert)]
        pub(crate) assertions: Vec<Assert>,
        #[from(RO:PreAssert)]
        pub(crate) pre_assertions: Vec<Assert>,
        #[from(RO:ReturnAllErrors, RO:ReturnUnexpectedError)]
        pub(crate) error_mode: EnumErrorMode,
        pub(crate) variants: Vec<EnumVariant>,
    }
}

impl<const WRITE: bool> FromInput<EnumAttr<WRITE>> for Enum {
    type Field = EnumVariant;

    fn push_field(&mut self, field: Self::Field) -> syn::Result<()> {
        self.variants.push(field);
        Ok(())
    }

    fn validate(&self, _: Options) -> syn::Result<()> {
        if self.map.is_some() {
            if let Some(variant) = self.variants.iter().find(|variant| !variant.has_no_attrs()) {
                return Err(syn::Error::new(
                    variant.ident().span(),
                    "cannot use attributes on variants inside an enum with an enum-level `map`",
                ));
            }
        }
        Ok(())
    }
}

attr_struct! {
    #[from(UnitEnumAttr)]
    #[derive(Clone, Debug, Default)]
    pub(crate) struct UnitOnlyEnum {
        #[from(RW:Stream)]
        pub(crate) stream_ident: Option<Ident>,
        #[from(RW:Big, RW:Little, RW:IsBig, RW:IsLittle)]
        pub(crate) endian: CondEndian,
        #[from(RW:Map, RW:TryMap, RW:Repr)]
        pub(crate) map: Map,
        #[from(RW:MapStream)]
        pub(crate) map_stream: Option<TokenStream>,
        #[from(RW:Magic)]
        pub(crate) magic: Magic,
        #[from(RW:Import, RW:ImportRaw)]
        pub(crate) imports: Imports,
        pub(crate) fields: Vec<UnitEnumField>,
        pub(crate) is_magic_enum: bool,
    }
}

impl UnitOnlyEnum {
    pub(crate) fn is_magic_enum(&self) -> bool {
        self.is_magic_enum
    }
}

impl<const WRITE: bool> FromInput<UnitEnumAttr<WRITE>> for UnitOnlyEnum {
    type Field = UnitEnumField;

    fn push_field(&mut self, field: Self::Field) -> syn::Result<()> {
        if let (Some(repr), Some(magic)) = (self.map.as_repr(), field.magic.as_ref()) {
            let magic_span = magic.span();
            let span = magic_span.join(repr.span()).unwrap_or(magic_span);
            Err(syn::Error::new(
                span,
                "`repr` and `magic` are mutually exclusive",
            ))
        } else {
            self.is_magic_enum |= field.magic.is_some();
            self.fields.push(field);
            Ok(())
        }
    }

    fn validate(&self, options: Options) -> syn::Result<()> {
        if self.map.as_repr().is_some() || self.is_magic_enum() {
            Ok(())
        } else if options.write {
            Err(syn::Error::new(proc_macro2::Span::call_site(), "BinWrite on unit-like enums requires either `#[bw(repr = ...)]` on the enum or `#[bw(magic = ...)]` on at least one variant"))
        } else {
            Err(syn::Error::new(proc_macro2::Span::call_site(), "BinRead on unit-like enums requires either `#[br(repr = ...)]` on the enum or `#[br(magic = ...)]` on at least one variant"))
        }
    }
}
