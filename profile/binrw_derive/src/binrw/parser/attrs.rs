use super::keywords as kw;
use crate::meta_types::{
    IdentPatType, IdentTypeMaybeDefault, MetaEnclosedList, MetaExpr, MetaIdent, MetaList, MetaLit,
    MetaType, MetaValue, MetaVoid,
};
use syn::{Expr, FieldValue, Token};

pub(super) type AlignAfter = MetaExpr<kw::align_after>;
pub(super) type AlignBefore = MetaExpr<kw::align_before>;
pub(super) type Args = MetaEnclosedList<kw::args, Expr, FieldValue>;
pub(super) type ArgsRaw = MetaExpr<kw::args_raw>;
pub(super) type AssertLike<Keyword> = MetaList<Keyword, Expr>;
pub(super) type Assert = AssertLike<kw::assert>;
pub(super) type Big = MetaVoid<kw::big>;
pub(super) type Calc = MetaExpr<kw::calc>;
pub(super) type Count = MetaExpr<kw::count>;
pub(super) type Debug = MetaVoid<kw::dbg>;
pub(super) type Default = MetaVoid<kw::default>;
pub(super) type ErrContext = MetaList<kw::err_context, Expr>;
pub(super) type If = MetaList<Token![if], Expr>;
pub(super) type Ignore = MetaVoid<kw::ignore>;
pub(super) type Import = MetaEnclosedList<kw::import, IdentPatType, IdentTypeMaybeDefault>;
pub(super) type ImportRaw = MetaValue<kw::import_raw, IdentPatType>;
pub(super) type IsBig = MetaExpr<kw::is_big>;
pub(super) type IsLittle = MetaExpr<kw::is_little>;
pub(super) type Little = MetaVoid<kw::little>;
pub(super) type Magic = MetaLit<kw::magic>;
pub(super) type Map = MetaExpr<kw::map>;
pub(super) type MapStream = MetaExpr<kw::map_stream>;
pub(super) type Offset = MetaExpr<kw::offset>;
pub(super) type PadAfter = MetaExpr<kw::pad_after>;
pub(super) type PadBefore = MetaExpr<kw::pad_before>;
pub(super) type PadSizeTo = MetaExpr<kw::pad_size_to>;
pub(super) type ParseWith = MetaExpr<kw::parse_with>;
pub(super) type PreAssert = AssertLike<kw::pre_assert>;
pub(super) type Repr = MetaType<kw::repr>;
pub(super) type RestorePosition = MetaVoid<kw::restore_position>;
pub(super) type ReturnAllErrors = MetaVoid<kw::return_all_errors>;
pub(super) type ReturnUnexpectedError = MetaVoid<kw::return_unexpected_error>;
pub(super) type SeekBefore = MetaExpr<kw::seek_before>;
pub(super) type Stream = MetaIdent<kw::stream>;
pub(super) type Temp = MetaVoid<kw::temp>;
pub(super) type Try = MetaVoid<Token![try]>;
pub(super) type TryCalc = MetaExpr<kw::try_calc>;
pub(super) type TryMap = MetaExpr<kw::try_map>;
pub(super) type WriteWith = MetaExpr<kw::write_with>;
