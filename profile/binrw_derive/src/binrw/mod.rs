#[cfg(feature = "verbose-backtrace")]
mod backtrace;
mod codegen;
mod combiner;
mod parser;

use codegen::generate_impl;
pub(crate) use combiner::derive as binrw_derive;
use parser::{Input, ParseResult};
use proc_macro::TokenStream;
use quote::quote;
use syn::{parse_macro_input, DeriveInput};

/// Input handling options.
#[derive(Clone, Copy)]
pub(super) struct Options {
    /// If `true`, the input is from a `#[derive]` instead of an attribute.
    pub(super) derive: bool,
    /// If `true`, the input is for `BinWrite`.
    pub(super) write: bool,
}

#[cfg_attr(coverage_nightly, coverage(off))]
fn clean_attr(derive_input: &mut DeriveInput, binrw_input: Option<&Input>) {
    clean_struct_attrs(&mut derive_input.attrs);

    match &mut derive_input.data {
        syn::Data::Struct(st) => {
            clean_field_attrs(binrw_input, 0, &mut st.fields);
        }
        syn::Data::Enum(en) => {
            for (index, variant) in en.variants.iter_mut().enumerate() {
                clean_struct_attrs(&mut variant.attrs);
                clean_field_attrs(binrw_input, index, &mut variant.fields);
            }
        }
        syn::Data::Union(union) => {
            for field in &mut union.fields.named {
                clean_struct_attrs(&mut field.attrs);
            }
        }
    }
}

#[cfg_attr(coverage_nightly, coverage(off))]
fn clean_field_attrs(input: Option<&Input>, variant_index: usize, fields: &mut syn::Fields) {
    if let Some(input) = input {
        let fields = match fields {
            syn::Fields::Named(fields) => &mut fields.named,
            syn::Fields::Unnamed(fields) => &mut fields.unnamed,
            syn::Fields::Unit => return,
        };

        *fields = fields
            .iter_mut()
            .enumerate()
            .filter_map(|(index, value)| {
                if input.is_temp_field(variant_index, index) {
                    None
                } else {
                    let mut value = value.clone();
                    clean_struct_attrs(&mut value.attrs);
                    Some(value)
                }
            })
            .collect();
    }
}

#[cfg_attr(coverage_nightly, coverage(off))]
fn clean_struct_attrs(attrs: &mut Vec<syn::Attribute>) {
    attrs.retain(|attr| !is_binwrite_attr(attr) && !is_binread_attr(attr));
}

#[cfg_attr(coverage_nightly, coverage(off))]
pub(super) fn derive_from_attribute(
    attr: &TokenStream,
    input: TokenStream,
    write: bool,
) -> TokenStream {
    if attr.to_string() == "ignore" {
        return input;
    }

    let mut derive_input = parse_macro_input!(input as DeriveInput);

    let mut mixed_rw = false;
    let opposite_attr = if write { "binread" } else { "binwrite" };
    for attr in &mut derive_input.attrs {
        if let Some(seg) = attr.path.segments.last() {
            let ident = &seg.ident;
            if ident == "binrw" || ident == "binread" || ident == "binwrite" {
                attr.tokens = quote! { (ignore) };

                if ident == "binrw" || ident == opposite_attr {
                    mixed_rw = true;
                }
            }
        }
    }

    if mixed_rw {
        combiner::derive(derive_input)
    } else {
        derive_from_input(
            derive_input,
            Options {
                derive: false,
                write,
            },
        )
    }
    .into()
}

#[cfg_attr(coverage_nightly, coverage(off))]
pub(super) fn derive_from_input(
    mut derive_input: DeriveInput,
    options: Options,
) -> proc_macro2::TokenStream {
    let (binrw_input, generated_impl) = parse(&derive_input, options);
    let binrw_input = binrw_input.ok();

    if options.derive {
        generated_impl
    } else {
        clean_struct_attrs(&mut derive_input.attrs);

        match &mut derive_input.data {
            syn::Data::Struct(st) => {
                clean_field_attrs(binrw_input.as_ref(), 0, &mut st.fields);
            }
            syn::Data::Enum(en) => {
                for (index, variant) in en.variants.iter_mut().enumerate() {
                    clean_struct_attrs(&mut variant.attrs);
                    clean_field_attrs(binrw_input.as_ref(), index, &mut variant.fields);
                }
            }
            syn::Data::Union(union) => {
                for field in &mut union.fields.named {
                    clean_struct_attrs(&mut field.attrs);
                }
            }
        }

        quote!(
            #derive_input
            #generated_impl
        )
    }
}

fn is_binread_attr(attr: &syn::Attribute) -> bool {
    attr.path.is_ident("br") || attr.path.is_ident("brw")
}

fn is_binwrite_attr(attr: &syn::Attribute) -> bool {
    attr.path.is_ident("bw") || attr.path.is_ident("brw")
}

fn parse(
    derive_input: &DeriveInput,
    options: Options,
) -> (ParseResult<Input>, proc_macro2::TokenStream) {
    let binrw_input = Input::from_input(derive_input, options);
    let generated_impl = if options.write {
        generate_impl::<true>(derive_input, &binrw_input)
    } else {
        generate_impl::<false>(derive_input, &binrw_input)
    };
    (binrw_input, generated_impl)
}

#[cfg(coverage)]
#[cfg_attr(coverage_nightly, coverage(off))]
#[test]
fn derive_binread_code_coverage_for_tool() {
    use runtime_macros_derive::emulate_derive_expansion_fallible;
    use std::{env, fs};

    let derive_tests_folder = env::current_dir()
        .unwrap()
        .join("..")
        .join("binrw")
        .join("tests")
        .join("derive");

    let mut run_success = true;
    for entry in fs::read_dir(derive_tests_folder).unwrap() {
        let entry = entry.unwrap();
        if entry.file_type().unwrap().is_file() {
            let file = fs::File::open(entry.path()).unwrap();
            if emulate_derive_expansion_fallible(file, "BinRead", |input| {
                parse(
                    &input,
                    Options {
                        derive: true,
                        write: false,
                    },
                )
                .1
            })
            .is_err()
            {
                run_success = false;
            }
        }
    }

    assert!(run_success)
}

#[cfg(coverage)]
#[cfg_attr(coverage_nightly, coverage(off))]
#[test]
fn derive_binwrite_code_coverage_for_tool() {
    use runtime_macros_derive::emulate_derive_expansion_fallible;
    use std::{env, fs};

    let derive_tests_folder = env::current_dir()
        .unwrap()
        .join("..")
        .join("binrw")
        .join("tests")
        .join("derive")
        .join("write");

    let mut run_success = true;
    for entry in fs::read_dir(derive_tests_folder).unwrap() {
        let entry = entry.unwrap();
        if entry.file_type().unwrap().is_file() {
            let file = fs::File::open(entry.path()).unwrap();
            if emulate_derive_expansion_fallible(file, "BinWrite", |input| {
                parse(
                    &input,
                    Options {
                        derive: true,
                        write: true,
                    },
                )
                .1
            })
            .is_err()
            {
                run_success = false;
            }
        }
    }

    assert!(run_success)
}
