use crate::{
    binrw::{
        codegen::generate_impl,
        parser::{Enum, EnumVariant, Input, ParseResult, Struct, StructField},
        Options,
    },
    combine_error,
};
use quote::quote;
use std::collections::HashSet;
use syn::{spanned::Spanned, DeriveInput};

pub(crate) fn derive(mut derive_input: DeriveInput) -> proc_macro2::TokenStream {
    let mut binread_input = Input::from_input(
        &derive_input,
        Options {
            derive: false,
            write: false,
        },
    );
    let mut binwrite_input = Input::from_input(
        &derive_input,
        Options {
            derive: false,
            write: true,
        },
    );

    // TODO: Make this not bad
    if let Some(error) = apply_temp_crossover(&mut binread_input, &mut binwrite_input) {
        binwrite_input = ParseResult::Partial(binwrite_input.unwrap_tuple().0, error);
    }

    let generated_read_impl = generate_impl::<false>(&derive_input, &binread_input);
    let generated_write_impl = generate_impl::<true>(&derive_input, &binwrite_input);

    // Since temporary fields must be synchronised between binread and binwrite,
    // the same cleaning mechanism can be used as-if there was only one input
    super::clean_attr(&mut derive_input, binread_input.ok().as_ref());

    quote!(
        #derive_input
        #generated_read_impl
        #generated_write_impl
    )
}

/// Check the fields of each input and copy temp state to the other input.
#[rustfmt::skip]
fn apply_temp_crossover(
    binread_result: &mut ParseResult<Input>,
    binwrite_result: &mut ParseResult<Input>,
) -> Option<syn::Error> {
    let (ParseResult::Ok(binread_input), ParseResult::Ok(binwrite_input)) = (binread_result, binwrite_result) else { 
        // We don't need to apply this in the case of Partial because no
        // implementation is generated.
        return None;
    };

    match (binread_input, binwrite_input) {
        (Input::Struct(binread_struct), Input::Struct(binwrite_struct)) => {
            apply_temp_crossover_struct(binread_struct, binwrite_struct)
        }
        (Input::Enum(binread_enum), Input::Enum(binwrite_enum)) => {
            apply_temp_crossover_enum(binread_enum, binwrite_enum)
        }
        // These don't have temp fields.
        (Input::UnitStruct(_), Input::UnitStruct(_))
        | (Input::UnitOnlyEnum(_), Input::UnitOnlyEnum(_)) => None,
        _ => unreachable!("read and write input should always be the same kind"),
    }
}

fn apply_temp_crossover_enum(
    binread_enum: &mut Enum,
    binwrite_enum: &mut Enum,
) -> Option<syn::Error> {
    let mut all_errors = None::<syn::Error>;
    for (read_variant, write_variant) in binread_enum
        .variants
        .iter_mut()
        .zip(binwrite_enum.variants.iter_mut())
    {
        match (read_variant, write_variant) {
            (
                EnumVariant::Variant {
                    options: read_struct,
                    ..
                },
                EnumVariant::Variant {
                    options: write_struct,
                    ..
                },
            ) => {
                if let Some(error) = apply_temp_crossover_struct(read_struct, write_struct) {
                    combine_error(&mut all_errors, error);
                }
            }
            (EnumVariant::Unit(_), EnumVariant::Unit(_)) => {}
            _ => unreachable!("read and write input should always be the same kind"),
        }
    }
    all_errors
}

fn apply_temp_crossover_struct(
    binread_struct: &mut Struct,
    binwrite_struct: &mut Struct,
) -> Option<syn::Error> {
    // Index temporary fields
    let read_temporary = extract_temporary_field_names(&binread_struct.fields, false);
    let write_temporary = extract_temporary_field_names(&binwrite_struct.fields, true);

    if let Some(error) = validate_fields_temporary(&binwrite_struct.fields, &read_temporary) {
        return Some(error);
    }

    // Iterate the fields again and set temp flags
    set_fields_temporary(&mut binread_struct.fields, &write_temporary);
    set_fields_temporary(&mut binwrite_struct.fields, &read_temporary);
    None
}

fn validate_fields_temporary(
    fields: &[StructField],
    read_temporary: &HashSet<syn::Ident>,
) -> Option<syn::Error> {
    let mut all_errors = None::<syn::Error>;
    for field in fields {
        if read_temporary.contains(&field.ident) && !field.generated_value() {
            combine_error(
                &mut all_errors,
                syn::Error::new(
                    field.field.span(),
                    "`#[br(temp)]` is invalid without a corresponding `#[bw(ignore)]`, `#[bw(calc)]`, or `#[bw(try_calc)]`",
                ),
            );
        }
    }
    all_errors
}

fn extract_temporary_field_names(fields: &[StructField], for_write: bool) -> HashSet<syn::Ident> {
    fields
        .iter()
        .filter(|f| f.is_temp(for_write))
        .map(|f| f.ident.clone())
        .collect()
}

fn set_fields_temporary(fields: &mut [StructField], temporary_names: &HashSet<syn::Ident>) {
    for field in fields {
        if temporary_names.contains(&field.ident) {
            field.force_temp();
        }
    }
}
