mod meta;
mod read_options;
pub(crate) mod sanitization;
mod write_options;

use crate::{
    binrw::parser::{
        Assert, AssertionError, CondEndian, Imports, Input, ParseResult, PassedArgs, StructField,
    },
    named_args::{arg_type_name, derive_from_imports},
    util::{quote_spanned_any, IdentStr},
};
use proc_macro2::{Span, TokenStream};
use quote::{quote, quote_spanned, ToTokens};
use sanitization::{
    ARGS, ARGS_LIFETIME, ARGS_MACRO, ASSERT, ASSERT_ERROR_FN, BINREAD_TRAIT, BINWRITE_TRAIT,
    BIN_ERROR, BIN_RESULT, ENDIAN_ENUM, OPT, POS, READER, READ_TRAIT, SEEK_TRAIT, TEMP, WRITER,
    WRITE_TRAIT,
};
use syn::{spanned::Spanned, DeriveInput, Ident, Type};

pub(crate) fn generate_impl<const WRITE: bool>(
    derive_input: &DeriveInput,
    binrw_input: &ParseResult<Input>,
) -> TokenStream {
    let (arg_type, arg_type_declaration) = match binrw_input {
        ParseResult::Ok(binrw_input) | ParseResult::Partial(binrw_input, _) => generate_imports(
            binrw_input.imports(),
            &derive_input.ident,
            &derive_input.vis,
            WRITE,
        ),
        ParseResult::Err(_) => (quote! { () }, None),
    };

    let trait_impl = generate_trait_impl::<WRITE>(binrw_input, derive_input, &arg_type);

    let meta_impls = match binrw_input {
        ParseResult::Ok(binrw_input) | ParseResult::Partial(binrw_input, _) => {
            Some(meta::generate::<WRITE>(binrw_input, derive_input))
        }
        ParseResult::Err(_) => None,
    };

    quote! {
        #trait_impl
        #meta_impls
        #arg_type_declaration
    }
}

fn generate_imports(
    imports: &Imports,
    type_name: &Ident,
    ty_vis: &syn::Visibility,
    is_write: bool,
) -> (TokenStream, Option<TokenStream>) {
    use syn::fold::Fold;

    fn has_elided_lifetime(ty: &syn::Type) -> bool {
        use syn::visit::Visit;
        struct Finder(bool);
        impl Visit<'_> for Finder {
            fn visit_lifetime(&mut self, i: &syn::Lifetime) {
                self.0 |= i.ident == "_";
            }

            fn visit_type_reference(&mut self, i: &syn::TypeReference) {
                self.0 |= i.lifetime.is_none();
            }
        }
        let mut finder = Finder(false);
        finder.visit_type(ty);
        finder.0
    }

    struct ExpandLifetimes;
    impl Fold for ExpandLifetimes {
        fn fold_lifetime(&mut self, mut i: syn::Lifetime) -> syn::Lifetime {
            if i.ident == "_" {
                i.ident = syn::Ident::new(ARGS_LIFETIME, i.ident.span());
            }
            i
        }

        fn fold_type_reference(&mut self, mut i: syn::TypeReference) -> syn::TypeReference {
            if i.lifetime.is_none()
                || matches!(&i.lifetime, Some(lifetime) if lifetime.ident == "_")
            {
                i.lifetime = Some(get_args_lifetime(i.and_token.span()));
            }
            i.elem = Box::new(ExpandLifetimes.fold_type(*i.elem));
            i
        }
    }

    match imports {
        Imports::None => (quote! { () }, None),
        Imports::List(_, types) => {
            let types = types.iter().map(|ty| ExpandLifetimes.fold_type(ty.clone()));
            (quote! { (#(#types,)*) }, None)
        }
        Imports::Raw(_, ty) => (
            ExpandLifetimes
                .fold_type(ty.as_ref().clone())
                .into_token_stream(),
            None,
        ),
        Imports::Named(args) => {
            let name = arg_type_name(type_name, is_write);
            let lifetime = args
                .iter()
                .any(|arg| has_elided_lifetime(&arg.ty))
                .then(|| get_args_lifetime(type_name.span()));
            let defs = derive_from_imports(
                type_name,
                is_write,
                &name,
                ty_vis,
                lifetime.clone(),
                args.iter().map(|arg| {
                    let mut arg = arg.clone();
                    arg.ty = ExpandLifetimes.fold_type(arg.ty);
                    arg
                }),
            );
            (
                if let Some(lifetime) = lifetime {
                    quote_spanned! { type_name.span()=> #name<#lifetime> }
                } else {
                    name.into_token_stream()
                },
                Some(defs),
            )
        }
    }
}

fn generate_trait_impl<const WRITE: bool>(
    binrw_input: &ParseResult<Input>,
    derive_input: &DeriveInput,
    arg_type: &TokenStream,
) -> TokenStream {
    let (trait_name, fn_sig) = if WRITE {
        (
            BINWRITE_TRAIT,
            quote! {
                fn write_options<W: #WRITE_TRAIT + #SEEK_TRAIT>(
                    &self,
                    #WRITER: &mut W,
                    #OPT: #ENDIAN_ENUM,
                    #ARGS: Self::Args<'_>
                ) -> #BIN_RESULT<()>
            },
        )
    } else {
        (
            BINREAD_TRAIT,
            quote! {
                fn read_options<R: #READ_TRAIT + #SEEK_TRAIT>
                    (#READER: &mut R, #OPT: #ENDIAN_ENUM, #ARGS: Self::Args<'_>)
                    -> #BIN_RESULT<Self>
            },
        )
    };

    let fn_impl = match binrw_input {
        ParseResult::Ok(binrw_input) => {
            if WRITE {
                write_options::generate(binrw_input, derive_input)
            } else {
                read_options::generate(binrw_input, derive_input)
            }
        }
        // If there is a parsing error, an impl for the trait still needs to be
        // generated to avoid misleading errors at all call sites that use the
        // trait, so emit the trait and just stick the errors inside the generated
        // function
        ParseResult::Partial(_, error) | ParseResult::Err(error) => error.to_compile_error(),
    };

    let name = &derive_input.ident;
    let (impl_generics, ty_generics, where_clause) = derive_input.generics.split_for_impl();

    let args_lifetime = get_args_lifetime(Span::call_site());
    quote! {
        #[automatically_derived]
        #[allow(non_snake_case, unknown_lints)]
        #[allow(clippy::redundant_closure_call)]
        impl #impl_generics #trait_name for #name #ty_generics #where_clause {
            type Args<#args_lifetime> = #arg_type;

            #fn_sig {
                #fn_impl
            }
        }
    }
}

fn get_args_lifetime(span: proc_macro2::Span) -> syn::Lifetime {
    syn::Lifetime::new(&format!("'{ARGS_LIFETIME}"), span)
}

fn get_assertions(assertions: &[Assert]) -> impl Iterator<Item = TokenStream> + '_ {
    assertions.iter().map(
        |Assert {
             kw_span,
             condition,
             consequent,
             ..
         }| {
            let error_fn = match &consequent {
                AssertionError::Message(message) => {
                    quote! { #ASSERT_ERROR_FN::<_, fn() -> !>::Message(|| { #message }) }
                }
                AssertionError::Error(error) => {
                    quote! { #ASSERT_ERROR_FN::Error::<fn() -> &'static str, _>(|| { #error }) }
                }
            };

            quote_spanned_any! {*kw_span=>
                #ASSERT(#condition, #POS, #error_fn)?;
            }
        },
    )
}

fn get_destructured_imports(
    imports: &Imports,
    type_name: Option<&Ident>,
    is_write: bool,
) -> Option<TokenStream> {
    match imports {
        Imports::None => None,
        Imports::List(idents, _) => {
            if idents.is_empty() {
                None
            } else {
                let idents = idents.iter();
                Some(quote! {
                    (#(mut #idents,)*)
                })
            }
        }
        Imports::Raw(ident, _) => Some(quote! {
            mut #ident
        }),
        Imports::Named(args) => type_name.map(|type_name| {
            let args_ty_name = arg_type_name(type_name, is_write);
            let idents = args.iter().map(|x| &x.ident);
            quote! {
                #args_ty_name {
                    #(#idents),*
                }
            }
        }),
    }
}

fn get_endian(endian: &CondEndian) -> TokenStream {
    match endian {
        CondEndian::Inherited => OPT.to_token_stream(),
        CondEndian::Fixed(endian) => endian.to_token_stream(),
        CondEndian::Cond(endian, condition) => {
            let (true_cond, false_cond) = (endian, endian.flipped());
            quote! {
                if (#condition) {
                    #true_cond
                } else {
                    #false_cond
                }
            }
        }
    }
}

fn get_map_err(pos: IdentStr, span: Span) -> TokenStream {
    quote_spanned_any! { span=>
        .map_err(|e| {
            #BIN_ERROR::Custom {
                pos: #pos,
                err: Box::new(e) as _,
            }
        })
    }
}

fn get_passed_args(field: &StructField, stream: &TokenStream) -> Option<TokenStream> {
    let args = &field.args;
    let span = args.span().unwrap_or_else(|| field.ty.span());
    match args {
        PassedArgs::Named(fields) => Some({
            let extra_args = directives_to_args(field, stream);
            quote_spanned_any! { span=>
                #ARGS_MACRO! { #extra_args #(#fields, )* }
            }
        }),
        PassedArgs::List(list) => Some(quote_spanned! {span=> (#(#list,)*) }),
        PassedArgs::Tuple(tuple) => Some(tuple.as_ref().clone()),
        PassedArgs::None => {
            let extra_args = directives_to_args(field, stream);
            (!extra_args.is_empty()).then(|| {
                quote_spanned_any! { span=> #ARGS_MACRO! { #extra_args } }
            })
        }
    }
}

fn get_try_calc(pos: IdentStr, ty: &Type, calc: &TokenStream) -> TokenStream {
    let map_err = get_map_err(pos, calc.span());
    quote_spanned! {ty.span()=> {
        let #TEMP: ::core::result::Result<#ty, _> = #calc;
        #TEMP #map_err ?
    }}
}

fn directives_to_args(field: &StructField, stream: &TokenStream) -> TokenStream {
    let args = field
        .count
        .as_ref()
        .map(|count| {
            quote_spanned_any! {count.span()=>
                count: {
                    let #TEMP = #count;
                    #[allow(clippy::useless_conversion, clippy::unnecessary_fallible_conversions)]
                    usize::try_from(#TEMP).map_err(|_| {
                        extern crate alloc;
                        #BIN_ERROR::AssertFail {
                            pos: #SEEK_TRAIT::stream_position(#stream)
                                .unwrap_or_default(),
                            // This is using debug formatting instead of display
                            // formatting to reduce the chance of some
                            // additional confusing error complaining about
                            // Display not being implemented if someone tries
                            // using a bogus type with `count`
                            message: alloc::format!("count {:?} out of range of usize", #TEMP)
                        }
                    })?
                }
            }
        })
        .into_iter()
        .chain(
            field
                .offset
                .as_ref()
                .map(|offset| quote_spanned! { offset.span()=> offset: #offset }),
        );
    quote! { #(#args,)* }
}
