mod r#enum;
mod map;
mod r#struct;

use super::{get_assertions, get_destructured_imports};
use crate::{
    binrw::{
        codegen::{
            get_endian,
            sanitization::{
                ARGS, ASSERT_MAGIC, MAP_READER_TYPE_HINT, OPT, POS, READER, RESTORE_POSITION,
                SEEK_TRAIT,
            },
        },
        parser::{Input, Magic, Map},
    },
    util::quote_spanned_any,
};
use proc_macro2::TokenStream;
use quote::{quote, ToTokens};
use r#enum::{generate_data_enum, generate_unit_enum};
use r#struct::{generate_struct, generate_unit_struct};
use syn::{spanned::Spanned, Ident};

pub(crate) fn generate(input: &Input, derive_input: &syn::DeriveInput) -> TokenStream {
    let name = Some(&derive_input.ident);
    let (inner, needs_rewind) = match input.map() {
        Map::None => match input {
            Input::UnitStruct(_) => (generate_unit_struct(input, name, None), false),
            Input::Struct(s) => (generate_struct(input, name, s), true),
            Input::Enum(e) => (generate_data_enum(input, name, e), false),
            Input::UnitOnlyEnum(e) => (
                generate_unit_enum(input, name, e),
                e.map.as_repr().is_some(),
            ),
        },
        Map::Try(map) => (map::generate_try_map(input, name, map), true),
        Map::Map(map) => (map::generate_map(input, name, map), true),
        Map::Repr(ty) => match input {
            Input::UnitOnlyEnum(e) => (generate_unit_enum(input, name, e), true),
            _ => (
                map::generate_try_map(
                    input,
                    name,
                    &quote! { <#ty as core::convert::TryInto<_>>::try_into },
                ),
                true,
            ),
        },
    };

    let reader_var = input.stream_ident_or(READER);

    let rewind = (needs_rewind || input.magic().is_some()).then(|| {
        quote! {
            .or_else(#RESTORE_POSITION::<binrw::Error, _, _>(#reader_var, #POS))
        }
    });

    quote! {
        let #reader_var = #READER;
        let #POS = #SEEK_TRAIT::stream_position(#reader_var)?;
        (|| {
            #inner
        })()#rewind
    }
}

struct PreludeGenerator<'input> {
    input: &'input Input,
    reader_var: TokenStream,
    out: TokenStream,
}

impl<'input> PreludeGenerator<'input> {
    fn new(input: &'input Input) -> Self {
        let reader_var = input.stream_ident_or(READER);
        Self {
            input,
            reader_var,
            out: TokenStream::new(),
        }
    }

    fn finish(self) -> TokenStream {
        self.out
    }

    fn add_imports(mut self, name: Option<&Ident>) -> Self {
        if let Some(imports) = get_destructured_imports(self.input.imports(), name, false) {
            let head = self.out;
            self.out = quote! {
                #head
                let #imports = #ARGS;
            };
        }

        self
    }

    fn add_endian(mut self) -> Self {
        let endian = get_endian(self.input.endian());
        let head = self.out;
        self.out = quote! {
            #head
            let #OPT = #endian;
        };
        self
    }

    fn add_magic_pre_assertion(mut self) -> Self {
        let head = self.out;
        let magic = get_magic(self.input.magic(), &self.reader_var, OPT);
        let pre_assertions = get_assertions(self.input.pre_assertions());
        self.out = quote! {
            #head
            #magic
            #(#pre_assertions)*
        };

        self
    }

    fn add_map_stream(mut self) -> Self {
        if let Some(map_stream) = self.input.map_stream() {
            let outer_reader = self.input.stream_ident_or(READER);
            let inner_reader = &self.reader_var;
            let head = self.out;
            self.out = quote_spanned_any! { map_stream.span()=>
                #head
                let #inner_reader = &mut #MAP_READER_TYPE_HINT::<R, _, _>(#map_stream)(#outer_reader);
            }
        }

        self
    }

    fn reset_position_after_magic(mut self) -> Self {
        if self.input.magic().is_some() {
            let reader_var = &self.reader_var;
            let head = self.out;
            self.out = quote! {
                #head
                let #POS = #SEEK_TRAIT::stream_position(#reader_var)?;
            };
        }

        self
    }
}

fn get_magic(
    magic: &Magic,
    reader_var: impl ToTokens,
    endian_var: impl ToTokens,
) -> Option<TokenStream> {
    magic.as_ref().map(|magic| {
        let magic = magic.deref_value();
        quote! {
            #ASSERT_MAGIC(#reader_var, #magic, #endian_var)?;
        }
    })
}
