use super::{
    r#struct::{generate_unit_struct, StructGenerator},
    PreludeGenerator,
};
use crate::binrw::{
    codegen::sanitization::{
        BACKTRACE_FRAME, BIN_ERROR, ERROR_BASKET, OPT, POS, READER, READ_METHOD,
        RESTORE_POSITION_VARIANT, TEMP, WITH_CONTEXT,
    },
    parser::{Enum, EnumErrorMode, EnumVariant, Input, UnitEnumField, UnitOnlyEnum},
};
use proc_macro2::TokenStream;
use quote::quote;
use syn::Ident;

pub(super) fn generate_unit_enum(
    input: &Input,
    name: Option<&Ident>,
    en: &UnitOnlyEnum,
) -> TokenStream {
    let prelude = PreludeGenerator::new(input)
        .add_imports(name)
        .add_endian()
        .add_magic_pre_assertion()
        .finish();

    let read = match en.map.as_repr() {
        Some(repr) => generate_unit_enum_repr(&input.stream_ident_or(READER), repr, &en.fields),
        None => generate_unit_enum_magic(&input.stream_ident_or(READER), &en.fields),
    };

    quote! {
        #prelude
        #read
    }
}

fn generate_unit_enum_repr(
    reader_var: &TokenStream,
    repr: &TokenStream,
    variants: &[UnitEnumField],
) -> TokenStream {
    let clauses = variants.iter().map(|variant| {
        let ident = &variant.ident;
        let pre_assertions = variant
            .pre_assertions
            .iter()
            .map(|assert| &assert.condition);

        quote! {
            if #TEMP == Self::#ident as #repr #(&& (#pre_assertions))* {
                Ok(Self::#ident)
            }
        }
    });

    quote! {
        let #TEMP: #repr = #READ_METHOD(#reader_var, #OPT, ())?;
        #(#clauses else)* {
            Err(#WITH_CONTEXT(
                #BIN_ERROR::NoVariantMatch {
                    pos: #POS,
                },
                #BACKTRACE_FRAME::Message({
                    extern crate alloc;
                    alloc::format!("Unexpected value for enum: {:?}", #TEMP).into()
                })
            ))
        }
    }
}

fn generate_unit_enum_magic(reader_var: &TokenStream, variants: &[UnitEnumField]) -> TokenStream {
    // group fields by the type (Kind) of their magic value, preserve the order
    let group_by_magic_type = variants.iter().fold(
        Vec::new(),
        |mut group_by_magic_type: Vec<(_, Vec<_>)>, field| {
            let kind = field.magic.as_ref().map(|magic| magic.kind());
            let last = group_by_magic_type.last_mut();
            match last {
                // if the current field's magic kind is the same as the previous one
                // then add the current field to the same group
                // if the magic kind is none then it's a wildcard, just add it to the previous group
                Some((last_kind, last_vec)) if kind.is_none() || *last_kind == kind => {
                    last_vec.push(field);
                }
                // otherwise if the vector is empty
                // or the last field's magic kind is different
                // then create a new group
                _ => group_by_magic_type.push((kind, vec![field])),
            }

            group_by_magic_type
        },
    );

    // for each type (Kind), read and try to match the magic of each field
    let try_each_magic_type = group_by_magic_type.into_iter().map(|(_kind, fields)| {
        let amp = fields[0].magic.as_ref().map(|magic| magic.add_ref());

        let matches = fields.iter().map(|field| {
            let ident = &field.ident;

            if let Some(magic) = &field.magic {
                let magic = magic.match_value();
                let condition = if field.pre_assertions.is_empty() {
                    quote! { #magic }
                } else {
                    let pre_assertions =
                        field.pre_assertions.iter().map(|assert| &assert.condition);
                    quote! { #magic if true #(&& (#pre_assertions))* }
                };

                quote! { #condition => Ok(Self::#ident) }
            } else {
                quote! { _ => Ok(Self::#ident) }
            }
        });

        let body = quote! {
            match #amp #READ_METHOD(#reader_var, #OPT, ())? {
                #(#matches,)*
                _ => Err(#BIN_ERROR::NoVariantMatch { pos: #POS })
            }
        };

        quote! {
            match (|| {
                #body
            })() {
                v @ Ok(_) => return v,
                Err(#TEMP) => { #RESTORE_POSITION_VARIANT(#reader_var, #POS, #TEMP)?; }
            }
        }
    });

    let return_error = quote! {
        Err(#BIN_ERROR::NoVariantMatch {
            pos: #POS
        })
    };

    quote! {
        #(#try_each_magic_type)*
        #return_error
    }
}

pub(super) fn generate_data_enum(input: &Input, name: Option<&Ident>, en: &Enum) -> TokenStream {
    let return_all_errors = en.error_mode != EnumErrorMode::ReturnUnexpectedError;

    let (create_error_basket, return_error) = if return_all_errors {
        (
            quote! {
                extern crate alloc;
                let mut #ERROR_BASKET: alloc::vec::Vec<(&'static str, #BIN_ERROR)> = alloc::vec::Vec::new();
            },
            quote! {
                { let _ = &#ERROR_BASKET; Err(#BIN_ERROR::NoVariantMatch { pos: #POS }) }
            },
        )
    } else {
        (
            TokenStream::new(),
            quote! {
                Err(#BIN_ERROR::NoVariantMatch {
                    pos: #POS
                })
            },
        )
    };

    let prelude = PreludeGenerator::new(input)
        .add_imports(name)
        .add_endian()
        .add_magic_pre_assertion()
        .reset_position_after_magic()
        .finish();

    let reader_var = input.stream_ident_or(READER);

    let try_each_variant = en.variants.iter().map(|variant| {
        let body = generate_variant_impl(en, variant);

        let handle_error = if return_all_errors {
            let name = variant.ident().to_string();
            let _ = &name;
            quote! {
                ::core::mem::forget(#TEMP);
            }
        } else {
            TokenStream::new()
        };

        quote! {
            match (|| {
                #body
            })() {
                ok @ Ok(_) => return ok,
                Err(error) => {
                    #RESTORE_POSITION_VARIANT(#reader_var, #POS, error).map(|#TEMP| {
                        #handle_error
                    })?;
                }
            }
        }
    });

    quote! {
        #prelude
        #create_error_basket
        #(#try_each_variant)*
        #return_error
    }
}

fn generate_variant_impl(en: &Enum, variant: &EnumVariant) -> TokenStream {
    let input = Input::Struct(variant.clone().into());

    match variant {
        EnumVariant::Variant { ident, options } => StructGenerator::new(&input, options)
            .read_fields(
                None,
                Some(&format!("{}::{}", en.ident.as_ref().unwrap(), &ident)),
            )
            .initialize_value_with_assertions(Some(ident), &en.assertions)
            .return_value()
            .finish(),

        EnumVariant::Unit(options) => generate_unit_struct(&input, None, Some(&options.ident)),
    }
}
