use super::{get_magic, PreludeGenerator};
#[cfg(feature = "verbose-backtrace")]
use crate::binrw::backtrace::BacktraceFrame;
use crate::binrw::parser::Assert;
use crate::{
    binrw::{
        codegen::{
            get_assertions, get_endian, get_map_err, get_passed_args, get_try_calc,
            sanitization::{
                make_ident, ARGS_TYPE_HINT, BACKTRACE_FRAME, BINREAD_TRAIT, COERCE_FN,
                DBG_EPRINTLN, MAP_ARGS_TYPE_HINT, MAP_READER_TYPE_HINT, OPT, PARSE_FN_TYPE_HINT,
                POS, READER, READ_FUNCTION, READ_METHOD, REQUIRED_ARG_TRAIT, SAVED_POSITION,
                SEEK_FROM, SEEK_TRAIT, TEMP, THIS, WITH_CONTEXT,
            },
        },
        parser::{ErrContext, FieldMode, Input, Map, Struct, StructField},
    },
    util::quote_spanned_any,
};
use alloc::borrow::Cow;
use proc_macro2::TokenStream;
use quote::{quote, quote_spanned, ToTokens};
use syn::{spanned::Spanned, Ident};

pub(super) fn generate_unit_struct(
    input: &Input,
    name: Option<&Ident>,
    variant_ident: Option<&Ident>,
) -> TokenStream {
    let prelude = get_prelude(input, name);
    let return_type = get_return_type(variant_ident);
    quote! {
        #prelude
        Ok(#return_type)
    }
}

pub(super) fn generate_struct(input: &Input, name: Option<&Ident>, st: &Struct) -> TokenStream {
    StructGenerator::new(input, st)
        .read_fields(name, None)
        .initialize_value_with_assertions(None, &[])
        .return_value()
        .finish()
}

pub(super) struct StructGenerator<'input> {
    input: &'input Input,
    st: &'input Struct,
    out: TokenStream,
}

impl<'input> StructGenerator<'input> {
    pub(super) fn new(input: &'input Input, st: &'input Struct) -> Self {
        Self {
            input,
            st,
            out: TokenStream::new(),
        }
    }

    pub(super) fn finish(self) -> TokenStream {
        self.out
    }

    pub(super) fn initialize_value_with_assertions(
        self,
        variant_ident: Option<&Ident>,
        extra_assertions: &[Assert],
    ) -> Self {
        if self.has_self_assertions(extra_assertions) {
            self.init_value(variant_ident)
                .add_assertions(extra_assertions)
        } else {
            self.add_assertions(extra_assertions)
                .init_value(variant_ident)
        }
    }

    fn has_self_assertions(&self, extra_assertions: &[Assert]) -> bool {
        self.st
            .assertions
            .iter()
            .chain(extra_assertions)
            .any(|assert| assert.condition_uses_self)
    }

    fn add_assertions(mut self, extra_assertions: &[Assert]) -> Self {
        let assertions =
            get_assertions(&self.st.assertions).chain(get_assertions(extra_assertions));
        let head = self.out;
        self.out = quote! {
            #head
            #(#assertions)*
        };

        self
    }

    pub(super) fn read_fields(mut self, name: Option<&Ident>, variant_name: Option<&str>) -> Self {
        let prelude = get_prelude(self.input, name);
        let read_fields = self
            .st
            .fields
            .iter()
            .map(|field| generate_field(self.input, field, name, variant_name));
        self.out = quote! {
            #prelude
            #(#read_fields)*
        };

        self
    }

    fn init_value(mut self, variant_ident: Option<&Ident>) -> Self {
        let out_names = self.st.iter_permanent_idents();
        let return_type = get_return_type(variant_ident);
        let return_value = if self.st.is_tuple() {
            quote! { #return_type(#(#out_names),*) }
        } else {
            quote! { #return_type { #(#out_names),* } }
        };

        let head = self.out;
        self.out = quote! {
            #head
            let #THIS = #return_value;
        };

        self
    }

    pub(super) fn return_value(mut self) -> Self {
        let head = self.out;

        self.out = quote! {
            #head
            Ok(#THIS)
        };

        self
    }
}

fn generate_field(
    input: &Input,
    field: &StructField,
    name: Option<&Ident>,
    variant_name: Option<&str>,
) -> TokenStream {
    // temp + ignore == just don't bother
    if field.is_temp(false) && matches!(field.field_mode, FieldMode::Default) {
        return TokenStream::new();
    }

    FieldGenerator::new(input, field)
        .read_value()
        .wrap_map_stream()
        .try_conversion(name, variant_name)
        .map_value()
        .wrap_debug()
        .wrap_seek()
        .wrap_condition()
        .assign_to_var()
        .append_assertions()
        .wrap_restore_position()
        .prefix_magic()
        .prefix_args_and_options()
        .prefix_map_function()
        .prefix_read_function()
        .finish()
}

struct FieldGenerator<'field> {
    field: &'field StructField,
    out: TokenStream,
    outer_reader_var: TokenStream,
    reader_var: TokenStream,
    endian_var: TokenStream,
    args_var: Option<Ident>,
}

impl<'field> FieldGenerator<'field> {
    fn new(input: &Input, field: &'field StructField) -> Self {
        let (reader_var, endian_var, args_var) = make_field_vars(input, field);

        Self {
            field,
            out: TokenStream::new(),
            outer_reader_var: input.stream_ident_or(READER),
            reader_var,
            endian_var,
            args_var,
        }
    }

    fn wrap_debug(mut self) -> Self {
        // Unwrapping the proc-macro2 Span is undesirable but necessary until its API
        // is updated to allow retrieving line/column again. Using a separate function
        // to unwrap just to make it clearer what needs to be undone later.
        // <https://github.com/dtolnay/proc-macro2/pull/383>
        #[cfg(all(feature = "verbose-backtrace", nightly, proc_macro))]
        fn start_line(span: proc_macro2::Span) -> usize {
            span.unwrap().start().line()
        }
        #[cfg(not(all(feature = "verbose-backtrace", nightly, proc_macro)))]
        fn start_line(_: proc_macro2::Span) -> usize {
            0
        }

        if self.field.debug.is_some() {
            fn dbg_space(
                name: &'static str,
                at: &TokenStream,
                which: Option<&TokenStream>,
            ) -> Option<TokenStream> {
                which.map(|space| {
                    quote_spanned! {space.span()=> {
                        #DBG_EPRINTLN!(
                            ::core::concat!("[{}:{} | ", #name, " {:#x}]"),
                            ::core::file!(), #at, #space
                        );
                    }}
                })
            }

            let head = self.out;
            let reader_var = &self.outer_reader_var;
            let ident = &self.field.ident;
            let start_line = start_line(ident.span());
            let at = if start_line == 0 {
                quote!(::core::line!())
            } else {
                start_line.to_token_stream()
            };

            let dbg_pad_before = dbg_space("pad_before", &at, self.field.pad_before.as_ref());
            let dbg_align_before = dbg_space("align_before", &at, self.field.align_before.as_ref());
            let dbg_pad_size_to = dbg_space("pad_size_to", &at, self.field.pad_size_to.as_ref());
            let dbg_pad_after = dbg_space("pad_after", &at, self.field.pad_after.as_ref());
            let dbg_align_after = dbg_space("align_after", &at, self.field.align_after.as_ref());

            self.out = quote! {{
                #dbg_pad_before
                #dbg_align_before
                let #SAVED_POSITION = #SEEK_TRAIT::stream_position(#reader_var)?;
                let #TEMP = #head;
                #DBG_EPRINTLN!(
                    "[{}:{} | offset {:#x}] {} = {:#x?}",
                    ::core::file!(), #at, #SAVED_POSITION, ::core::stringify!(#ident), &#TEMP
                );
                #dbg_pad_size_to
                #dbg_pad_after
                #dbg_align_after
                #TEMP
            }};
        }

        self
    }

    fn append_assertions(mut self) -> Self {
        let assertions = get_assertions(&self.field.assertions);
        let head = self.out;
        self.out = quote! {
            #head
            #(#assertions)*
        };

        self
    }

    fn assign_to_var(mut self) -> Self {
        let ident = &self.field.ident;
        let ty = &self.field.ty;
        let value = self.out;
        self.out = quote! { let mut #ident: #ty = #value; };

        self
    }

    fn finish(self) -> TokenStream {
        self.out
    }

    fn map_value(mut self) -> Self {
        let map_func = make_ident(&self.field.ident, "map_func");

        self.out = match &self.field.map {
            Map::None => return self,
            Map::Map(m) => {
                let value = self.out;
                quote_spanned! {m.span()=> #map_func(#value) }
            }
            Map::Try(t) | Map::Repr(t) => {
                // TODO: Position should always just be saved once for a field if used
                let value = self.out;
                let map_err = get_map_err(SAVED_POSITION, t.span());
                let reader_var = &self.outer_reader_var;
                quote_spanned! {t.span()=> {
                    let #SAVED_POSITION = #SEEK_TRAIT::stream_position(#reader_var)?;

                    #map_func(#value)#map_err?
                }}
            }
        };

        self
    }

    fn prefix_map_function(mut self) -> Self {
        let map_func = make_ident(&self.field.ident, "map_func");
        let ty = &self.field.ty;

        let set_map_function = match &self.field.map {
            Map::None => return self,
            Map::Map(map) => {
                quote! {
                    let mut #map_func = (#COERCE_FN::<#ty, _, _>(#map));
                }
            }
            Map::Try(try_map) | Map::Repr(try_map) => {
                let try_map = if matches!(self.field.map, Map::Repr(_)) {
                    quote! {
                        <#try_map as core::convert::TryInto<_>>::try_into
                    }
                } else {
                    try_map.clone()
                };

                // TODO: Position should always just be saved once for a field if used
                quote! {
                    let mut #map_func = (#COERCE_FN::<::core::result::Result<#ty, _>, _, _>(#try_map));
                }
            }
        };

        let rest = self.out;
        self.out = quote! {
            #set_map_function
            #rest
        };

        self
    }

    fn wrap_map_stream(mut self) -> Self {
        if let Some(map_stream) = &self.field.map_stream {
            let rest = self.out;
            let reader_var = &self.reader_var;
            let outer_reader_var = &self.outer_reader_var;
            self.out = quote_spanned_any! { map_stream.span()=> {
                let #reader_var = &mut #MAP_READER_TYPE_HINT::<R, _, _>(#map_stream)(#outer_reader_var);
                #rest
            }};
        }

        self
    }

    fn prefix_read_function(mut self) -> Self {
        let read_function = match &self.field.field_mode {
            FieldMode::Function(parser) => {
                quote_spanned_any! { parser.span()=>
                    let #READ_FUNCTION = #PARSE_FN_TYPE_HINT(#parser);
                }
            }
            FieldMode::Normal => quote! {
                let #READ_FUNCTION = #READ_METHOD;
            },
            _ => return self,
        };

        let rest = self.out;
        self.out = quote! {
            #read_function
            #rest
        };

        self
    }

    fn prefix_args_and_options(mut self) -> Self {
        let args = self.args_var.as_ref().map(|args_var| {
            let map_func = make_ident(&self.field.ident, "map_func");
            let args = get_passed_args(self.field, &self.outer_reader_var);
            let ty = &self.field.ty;

            if let FieldMode::Function(_) = &self.field.field_mode {
                quote_spanned! {ty.span()=>
                    let #args_var = #ARGS_TYPE_HINT::<_, #ty, _, _>(&#READ_FUNCTION, #args);
                }
            } else {
                match &self.field.map {
                    Map::Map(_) | Map::Try(_) | Map::Repr(_) => {
                        quote_spanned! {ty.span()=>
                            let #args_var = #MAP_ARGS_TYPE_HINT(&#map_func, #args);
                        }
                    }
                    Map::None => {
                        quote_spanned! {ty.span()=>
                            let #args_var: <#ty as #BINREAD_TRAIT>::Args<'_> = #args;
                        }
                    }
                }
            }
        });

        let endian = self.field.needs_endian().then(|| {
            let var = &self.endian_var;
            let endian = get_endian(&self.field.endian);
            quote! { let #var = #endian; }
        });

        let tail = self.out;

        self.out = quote! {
            #args
            #endian
            #tail
        };

        self
    }

    fn prefix_magic(mut self) -> Self {
        if let Some(magic) = get_magic(&self.field.magic, &self.outer_reader_var, &self.endian_var)
        {
            let tail = self.out;
            self.out = quote! {
                #magic
                #tail
            };
        }

        self
    }

    fn read_value(mut self) -> Self {
        self.out = match &self.field.field_mode {
            FieldMode::Default => quote! { <_>::default() },
            FieldMode::Calc(calc) => quote! { #calc },
            FieldMode::TryCalc(calc) => get_try_calc(POS, &self.field.ty, calc),
            read_mode @ (FieldMode::Normal | FieldMode::Function(_)) => {
                let args_arg = self.args_var.as_ref().map_or_else(
                    || quote_spanned! {self.field.ty.span()=> <_ as #REQUIRED_ARG_TRAIT>::args() },
                    ToTokens::to_token_stream,
                );
                let reader_var = &self.reader_var;
                let endian_var = &self.endian_var;

                if let FieldMode::Function(f) = read_mode {
                    let ty = &self.field.ty;
                    // Mapping the value with an explicit type ensures the
                    // incompatible type is warned here as a mismatched type
                    // instead of later as a try-conversion error
                    let map = self.field.map.is_none().then(|| {
                        quote_spanned! { f.span()=>
                            .map(|v| -> #ty { v })
                        }
                    });

                    // Adding a closure suppresses mentions of the generated
                    // READ_FUNCTION variable in errors
                    quote_spanned_any! { f.span()=>
                        (|| #READ_FUNCTION)()(#reader_var, #endian_var, #args_arg)
                        #map
                    }
                } else {
                    quote! {
                        #READ_FUNCTION(#reader_var, #endian_var, #args_arg)
                    }
                }
            }
        };

        self
    }

    fn try_conversion(mut self, name: Option<&Ident>, variant_name: Option<&str>) -> Self {
        if !self.field.generated_value() {
            let result = self.out;
            self.out = if self.field.do_try.is_some() {
                quote! { #result.unwrap_or_default() }
            } else {
                let span = match &self.field.field_mode {
                    FieldMode::Function(f) => f.span(),
                    _ => result.span(),
                };

                let map_err = get_err_context(self.field, name, variant_name);
                quote_spanned! {span=> #result #map_err ? }
            };
        }

        self
    }

    fn wrap_condition(mut self) -> Self {
        if let Some(cond) = &self.field.if_cond {
            let condition = &cond.condition;
            let consequent = self.out;
            let alternate = cond
                .alternate
                .as_ref()
                .map_or_else(|| Cow::Owned(quote! { <_>::default() }), Cow::Borrowed);
            self.out = quote! {
                if #condition {
                    #consequent
                } else {
                    #alternate
                }
            };
        }

        self
    }

    fn wrap_restore_position(mut self) -> Self {
        if self.field.restore_position.is_some() {
            self.out = wrap_save_restore(&self.outer_reader_var, self.out);
        }

        self
    }

    fn wrap_seek(mut self) -> Self {
        let seek_before = generate_seek_before(&self.outer_reader_var, self.field);
        let seek_after = generate_seek_after(&self.outer_reader_var, self.field);
        if !seek_before.is_empty() || !seek_after.is_empty() {
            let value = self.out;
            self.out = quote! {{
                #seek_before
                let #TEMP = #value;
                #seek_after
                #TEMP
            }};
        }

        self
    }
}

fn get_err_context(
    field: &StructField,
    name: Option<&Ident>,
    variant_name: Option<&str>,
) -> TokenStream {
    let backtrace = if let Some(ErrContext::Context(expr)) = &field.err_context {
        quote_spanned! {field.ident.span()=>
            #BACKTRACE_FRAME::Custom(Box::new(#expr) as _)
        }
    } else {
        #[cfg(feature = "verbose-backtrace")]
        let code = {
            let code = BacktraceFrame::from_field(field).to_string();
            if code.is_empty() {
                quote! { None }
            } else {
                quote! { Some(#code) }
            }
        };
        #[cfg(not(feature = "verbose-backtrace"))]
        let code = quote!(None);

        let message = if let Some(ErrContext::Format(fmt, exprs)) = &field.err_context {
            if exprs.is_empty() {
                quote! { (#fmt) }
            } else {
                quote! {
                    {
                        extern crate alloc;
                        alloc::format!(#fmt, #(#exprs),*)
                    }
                }
            }
        } else {
            format!(
                "While parsing field '{}' in {}",
                field.ident,
                name.map_or_else(|| variant_name.unwrap().into(), ToString::to_string)
            )
            .into_token_stream()
        };

        quote_spanned! {field.ident.span()=>
            #BACKTRACE_FRAME::Full {
                message: #message.into(),
                line: ::core::line!(),
                file: ::core::file!(),
                code: #code,
            }
        }
    };

    quote! {
        .map_err(|err| #WITH_CONTEXT(err, #backtrace))
    }
}

fn get_prelude(input: &Input, name: Option<&Ident>) -> TokenStream {
    PreludeGenerator::new(input)
        .add_imports(name)
        .add_endian()
        .add_magic_pre_assertion()
        .add_map_stream()
        .finish()
}

fn generate_seek_after(reader_var: &TokenStream, field: &StructField) -> TokenStream {
    let pad_size_to = field.pad_size_to.as_ref().map(|pad| {
        quote! {{
            let pad = (#pad) as i64;
            let size = (#SEEK_TRAIT::stream_position(#reader_var)? - #POS) as i64;
            if size < pad {
                #SEEK_TRAIT::seek(#reader_var, #SEEK_FROM::Current(pad - size))?;
            }
        }}
    });
    let pad_after = field
        .pad_after
        .as_ref()
        .map(|value| map_pad(reader_var, value));
    let align_after = field
        .align_after
        .as_ref()
        .map(|value| map_align(reader_var, value));

    quote! {
        #pad_size_to
        #pad_after
        #align_after
    }
}

fn generate_seek_before(reader_var: &TokenStream, field: &StructField) -> TokenStream {
    let seek_before = field.seek_before.as_ref().map(|seek| {
        quote! {
            #SEEK_TRAIT::seek(#reader_var, #seek)?;
        }
    });
    let pad_before = field
        .pad_before
        .as_ref()
        .map(|value| map_pad(reader_var, value));
    let align_before = field
        .align_before
        .as_ref()
        .map(|value| map_align(reader_var, value));
    let pad_size_to_before = field.pad_size_to.as_ref().map(|_| {
        quote! {
            let #POS = #SEEK_TRAIT::stream_position(#reader_var)?;
        }
    });

    quote! {
        #seek_before
        #pad_before
        #align_before
        #pad_size_to_before
    }
}

fn get_return_type(variant_ident: Option<&Ident>) -> TokenStream {
    variant_ident.map_or_else(|| quote! { Self }, |ident| quote! { Self::#ident })
}

fn make_field_vars(
    input: &Input,
    field: &StructField,
) -> (TokenStream, TokenStream, Option<Ident>) {
    let reader_var = if field.map_stream.is_some() {
        make_ident(&field.ident, "reader").into_token_stream()
    } else {
        input.stream_ident_or(READER)
    };

    let endian_var = if field.needs_endian() {
        make_ident(&field.ident, "endian").into_token_stream()
    } else {
        OPT.to_token_stream()
    };

    let args_var = if field.needs_args() {
        Some(make_ident(&field.ident, "args"))
    } else {
        None
    };

    (reader_var, endian_var, args_var)
}

fn map_align(reader_var: &TokenStream, align: &TokenStream) -> TokenStream {
    quote! {{
        let align = (#align) as i64;
        let pos = #SEEK_TRAIT::stream_position(#reader_var)? as i64;
        #SEEK_TRAIT::seek(#reader_var, #SEEK_FROM::Current((align - (pos % align)) % align))?;
    }}
}

fn map_pad(reader_var: &TokenStream, pad: &TokenStream) -> TokenStream {
    quote! {
        #SEEK_TRAIT::seek(#reader_var, #SEEK_FROM::Current((#pad) as i64))?;
    }
}

fn wrap_save_restore(reader_var: &TokenStream, value: TokenStream) -> TokenStream {
    if value.is_empty() {
        value
    } else {
        quote! {
            let #SAVED_POSITION = #SEEK_TRAIT::stream_position(#reader_var)?;
            #value
            #SEEK_TRAIT::seek(#reader_var, #SEEK_FROM::Start(#SAVED_POSITION))?;
        }
    }
}
