use super::PreludeGenerator;
use crate::binrw::{
    codegen::{
        get_assertions, get_map_err,
        sanitization::{ARGS, OPT, POS, READER, READ_METHOD, THIS},
    },
    parser::Input,
};
use proc_macro2::TokenStream;
use quote::quote;
use syn::{spanned::Spanned, Ident};

pub(crate) fn generate_map(input: &Input, name: Option<&Ident>, map: &TokenStream) -> TokenStream {
    let prelude = PreludeGenerator::new(input)
        .add_imports(name)
        .add_endian()
        .add_magic_pre_assertion()
        .finish();

    let destructure_ref = destructure_ref(input);
    let assertions = field_asserts(input).chain(get_assertions(input.assertions()));
    let reader_var = input.stream_ident_or(READER);

    // TODO: replace args with top-level arguments and only
    // use `()` as a default
    quote! {
        #prelude

        #READ_METHOD(#reader_var, #OPT, ())
            .map(#map)
                .and_then(|#THIS| {
                    #destructure_ref

                    (|| {
                        #(
                            #assertions
                        )*

                        Ok(())
                    })().map(|_: ()| #THIS)
                })
    }
}

pub(crate) fn generate_try_map(
    input: &Input,
    name: Option<&Ident>,
    map: &TokenStream,
) -> TokenStream {
    let map_err = get_map_err(POS, map.span());
    let prelude = PreludeGenerator::new(input)
        .add_imports(name)
        .add_endian()
        .add_magic_pre_assertion()
        .finish();

    let destructure_ref = destructure_ref(input);
    let assertions = field_asserts(input).chain(get_assertions(input.assertions()));
    let reader_var = input.stream_ident_or(READER);

    // TODO: replace args with top-level arguments and only
    // use `()` as a default
    quote! {
        #prelude

        #READ_METHOD(#reader_var, #OPT, #ARGS).and_then(|value| {
            (#map)(value)#map_err
        })
        .and_then(|#THIS| {
            #destructure_ref

            (|| {
                #(
                    #assertions
                )*

                Ok(())
            })().map(|_: ()| #THIS)
        })
    }
}

fn destructure_ref(input: &Input) -> Option<TokenStream> {
    match input {
        Input::Struct(input) => {
            let fields = input.fields.iter().map(|field| &field.ident);

            if input.is_tuple() {
                Some(quote! {
                    let Self ( #( ref #fields ),* ) = &#THIS;
                })
            } else {
                Some(quote! {
                    let Self { #( ref #fields ),* } = &#THIS;
                })
            }
        }

        _ => None,
    }
}

fn field_asserts(input: &Input) -> impl Iterator<Item = TokenStream> + '_ {
    match input {
        Input::Struct(input) => either::Left(
            input
                .fields
                .iter()
                .flat_map(|field| get_assertions(&field.assertions)),
        ),
        _ => either::Right(core::iter::empty()),
    }
}
