mod r#enum;
mod prelude;
mod r#struct;
mod struct_field;

use super::get_map_err;
use crate::binrw::{
    codegen::sanitization::{OPT, POS, SEEK_TRAIT, WRITER, WRITE_METHOD},
    parser::{Input, Map},
};
use proc_macro2::TokenStream;
use quote::quote;
use r#enum::{generate_data_enum, generate_unit_enum};
use r#struct::generate_struct;
use syn::{spanned::Spanned, Ident};

pub(crate) fn generate(input: &Input, derive_input: &syn::DeriveInput) -> TokenStream {
    let name = Some(&derive_input.ident);
    let inner = match input.map() {
        Map::None => match input {
            Input::UnitStruct(s) | Input::Struct(s) => generate_struct(input, name, s),
            Input::Enum(e) => generate_data_enum(input, name, e),
            Input::UnitOnlyEnum(e) => generate_unit_enum(input, name, e),
        },
        Map::Try(map) | Map::Map(map) => generate_map(input, name, map),
        Map::Repr(map) => match input {
            Input::UnitOnlyEnum(e) => generate_unit_enum(input, name, e),
            _ => generate_map(input, name, map),
        },
    };

    let writer_var = input.stream_ident_or(WRITER);

    quote! {
        let #writer_var = #WRITER;
        let #POS = #SEEK_TRAIT::stream_position(#writer_var)?;
        #inner

        Ok(())
    }
}

fn generate_map(input: &Input, name: Option<&Ident>, map: &TokenStream) -> TokenStream {
    let map_try = input.map().is_try().then(|| {
        let map_err = get_map_err(POS, map.span());
        quote! { #map_err? }
    });
    let map = if matches!(input.map(), Map::Repr(_)) {
        quote! { <#map as core::convert::TryFrom<_>>::try_from }
    } else {
        map.clone()
    };
    let writer_var = input.stream_ident_or(WRITER);
    let write_data = quote! {
        #WRITE_METHOD(
            &((#map)(self) #map_try),
            #writer_var,
            #OPT,
            ()
        )?;
    };

    let magic = input.magic();
    let endian = input.endian();
    prelude::PreludeGenerator::new(write_data, input, name, &writer_var)
        .prefix_magic(magic)
        .prefix_assertions()
        .prefix_endian(endian)
        .prefix_imports()
        .finish()
}
