//! Utilities for helping sanitize macro
use crate::util::{from_crate, ident_str};
use proc_macro2::Ident;
use quote::format_ident;

macro_rules! from_read_trait {
    () => {
        from_crate!(BinRead)
    };
    ($path:path) => {
        concat!("binrw::BinRead::", stringify!($path))
    };
}
macro_rules! from_write_trait {
    () => {
        from_crate!(BinWrite)
    };
    ($path:path) => {
        concat!("binrw::BinWrite::", stringify!($path))
    };
}

pub(crate) const ARGS_LIFETIME: &str = "__binrw_generated_args_lifetime";

ident_str! {
    pub(crate) BINREAD_TRAIT = from_read_trait!();
    pub(crate) BINWRITE_TRAIT = from_write_trait!();
    pub(crate) BIN_ERROR = from_crate!(Error);
    pub(crate) READ_TRAIT = from_crate!(io::Read);
    pub(crate) WRITE_TRAIT = from_crate!(io::Write);
    pub(crate) SEEK_TRAIT = from_crate!(io::Seek);
    pub(crate) SEEK_FROM = from_crate!(io::SeekFrom);
    pub(crate) BIN_RESULT = from_crate!(BinResult);
    pub(crate) ENDIAN_ENUM = from_crate!(Endian);
    pub(crate) READ_METHOD = from_read_trait!(read_options);
    pub(crate) WRITE_METHOD = from_write_trait!(write_options);
    pub(crate) READER = "__binrw_generated_var_reader";
    pub(crate) WRITER = "__binrw_generated_var_writer";
    pub(crate) OPT = "__binrw_generated_var_endian";
    pub(crate) ARGS = "__binrw_generated_var_arguments";
    pub(crate) SAVED_POSITION = "__binrw_generated_saved_position";
    pub(crate) ASSERT_MAGIC = from_crate!(__private::magic);
    pub(crate) ASSERT = from_crate!(__private::assert);
    pub(crate) ASSERT_ERROR_FN = from_crate!(__private::AssertErrorFn);
    pub(crate) COERCE_FN = from_crate!(__private::coerce_fn);
    pub(crate) ARGS_TYPE_HINT = from_crate!(__private::parse_function_args_type_hint);
    pub(crate) MAP_ARGS_TYPE_HINT = from_crate!(__private::map_args_type_hint);
    pub(crate) REQUIRED_ARG_TRAIT = from_crate!(__private::Required);
    pub(crate) MAP_READER_TYPE_HINT = from_crate!(__private::map_reader_type_hint);
    pub(crate) MAP_WRITER_TYPE_HINT = from_crate!(__private::map_writer_type_hint);
    pub(crate) PARSE_FN_TYPE_HINT = from_crate!(__private::parse_fn_type_hint);
    pub(crate) WRITE_FN_TYPE_HINT = from_crate!(__private::write_fn_type_hint);
    pub(crate) WRITE_ARGS_TYPE_HINT = from_crate!(__private::write_function_args_type_hint);
    pub(crate) WRITE_MAP_ARGS_TYPE_HINT = from_crate!(__private::write_map_args_type_hint);
    pub(crate) WRITE_TRY_MAP_ARGS_TYPE_HINT = from_crate!(__private::write_try_map_args_type_hint);
    pub(crate) WRITE_MAP_INPUT_TYPE_HINT = from_crate!(__private::write_map_fn_input_type_hint);
    pub(crate) WRITE_FN_MAP_OUTPUT_TYPE_HINT = from_crate!(__private::write_fn_map_output_type_hint);
    pub(crate) WRITE_FN_TRY_MAP_OUTPUT_TYPE_HINT = from_crate!(__private::write_fn_try_map_output_type_hint);
    pub(crate) RESTORE_POSITION = from_crate!(__private::restore_position);
    pub(crate) RESTORE_POSITION_VARIANT = from_crate!(__private::restore_position_variant);
    pub(crate) WRITE_ZEROES = from_crate!(__private::write_zeroes);
    pub(crate) ARGS_MACRO = from_crate!(args);
    pub(crate) META_ENDIAN_KIND = from_crate!(meta::EndianKind);
    pub(crate) READ_ENDIAN = from_crate!(meta::ReadEndian);
    pub(crate) READ_MAGIC = from_crate!(meta::ReadMagic);
    pub(crate) WRITE_ENDIAN = from_crate!(meta::WriteEndian);
    pub(crate) WRITE_MAGIC = from_crate!(meta::WriteMagic);
    pub(crate) WITH_CONTEXT = from_crate!(error::ContextExt::with_context);
    pub(crate) BACKTRACE_FRAME = from_crate!(error::BacktraceFrame);
    pub(crate) TEMP = "__binrw_temp";
    pub(crate) THIS = "__binrw_this";
    pub(crate) POS = "__binrw_generated_position_temp";
    pub(crate) ERROR_BASKET = "__binrw_generated_error_basket";
    pub(crate) READ_FUNCTION = "__binrw_generated_read_function";
    pub(crate) WRITE_FUNCTION = "__binrw_generated_write_function";
    pub(crate) BEFORE_POS = "__binrw_generated_before_pos";
    pub(crate) DBG_EPRINTLN = from_crate!(__private::eprintln);
}

pub(crate) fn make_ident(ident: &Ident, kind: &str) -> Ident {
    format_ident!("__binrw_generated_{}_{}", kind, ident)
}
