use super::sanitization::{META_ENDIAN_KIND, READ_ENDIAN, READ_MAGIC, WRITE_ENDIAN, WRITE_MAGIC};
use crate::binrw::parser::{CondEndian, Input, Map};
use proc_macro2::TokenStream;
use quote::quote;

pub(crate) fn generate<const WRITE: bool>(
    input: &Input,
    derive_input: &syn::DeriveInput,
) -> TokenStream {
    let name = &derive_input.ident;
    let (impl_generics, ty_generics, where_clause) = derive_input.generics.split_for_impl();

    let magic = input.magic().as_ref().map(|magic| {
        let magic_meta = if WRITE { WRITE_MAGIC } else { READ_MAGIC };
        let ty = TokenStream::from(magic.kind());
        let val = magic.deref_value();
        quote! {
            impl #impl_generics #magic_meta for #name #ty_generics #where_clause {
                type MagicType = #ty;
                const MAGIC: Self::MagicType = #val;
            }
        }
    });

    let endian_meta = if WRITE { WRITE_ENDIAN } else { READ_ENDIAN };

    let endian = match input.endian() {
        CondEndian::Inherited => match input.map() {
            Map::None => input.is_empty().then(|| {
                quote! {
                    #META_ENDIAN_KIND::None
                }
            }),
            Map::Map(_) | Map::Try(_) => Some(quote! {
                #META_ENDIAN_KIND::None
            }),
            Map::Repr(repr) => ["i8", "u8"].contains(&repr.to_string().as_str()).then(|| {
                quote! { <(#repr) as #endian_meta>::ENDIAN }
            }),
        },
        CondEndian::Fixed(endian) => Some(quote! {
            #META_ENDIAN_KIND::Endian(#endian)
        }),
        CondEndian::Cond(..) => Some(quote! {
            #META_ENDIAN_KIND::Runtime
        }),
    }
    .map(|endian| {
        quote! {
            impl #impl_generics #endian_meta for #name #ty_generics #where_clause {
                const ENDIAN: #META_ENDIAN_KIND = #endian;
            }
        }
    });

    quote! {
        #magic
        #endian
    }
}
