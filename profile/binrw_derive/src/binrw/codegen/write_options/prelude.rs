use crate::{
    binrw::{
        codegen::{
            get_assertions, get_destructured_imports, get_endian,
            sanitization::{ARGS, MAP_WRITER_TYPE_HINT, OPT, WRITER, WRITE_METHOD},
        },
        parser::{CondEndian, Input, Magic},
    },
    util::quote_spanned_any,
};
use proc_macro2::{Ident, TokenStream};
use quote::quote;
use syn::spanned::Spanned;

pub(crate) struct PreludeGenerator<'a> {
    out: TokenStream,
    input: &'a Input,
    name: Option<&'a Ident>,
    writer_var: &'a TokenStream,
}

impl<'a> PreludeGenerator<'a> {
    pub(crate) fn new(
        out: TokenStream,
        input: &'a Input,
        name: Option<&'a Ident>,
        writer_var: &'a TokenStream,
    ) -> Self {
        Self {
            out,
            input,
            name,
            writer_var,
        }
    }

    pub(super) fn prefix_assertions(mut self) -> Self {
        let assertions = get_assertions(self.input.assertions());
        let out = self.out;
        self.out = quote! {
            #(#assertions)*
            #out
        };

        self
    }

    pub(crate) fn prefix_imports(mut self) -> Self {
        if let Some(imports) = get_destructured_imports(self.input.imports(), self.name, true) {
            let out = self.out;
            self.out = quote! {
                let #imports = #ARGS;
                #out
            };
        }

        self
    }

    pub(crate) fn prefix_magic(mut self, magic: &Magic) -> Self {
        if let Some(magic) = magic {
            let writer_var = &self.writer_var;
            let magic = magic.match_value();
            let out = self.out;
            self.out = quote! {
                #WRITE_METHOD (
                    &#magic,
                    #writer_var,
                    #OPT,
                    ()
                )?;

                #out
            };
        }

        self
    }

    pub(crate) fn prefix_endian(mut self, endian: &CondEndian) -> Self {
        let endian = get_endian(endian);
        let out = self.out;
        self.out = quote! {
            let #OPT = #endian;
            #out
        };

        self
    }

    pub(crate) fn prefix_map_stream(mut self) -> Self {
        if let Some(map_stream) = self.input.map_stream() {
            let outer_writer = self.input.stream_ident_or(WRITER);
            let inner_writer = &self.writer_var;
            let tail = self.out;
            self.out = quote_spanned_any! { map_stream.span()=>
                let #inner_writer = &mut #MAP_WRITER_TYPE_HINT::<W, _, _>(#map_stream)(#outer_writer);
                #tail
            };
        }

        self
    }

    pub(crate) fn finish(self) -> TokenStream {
        self.out
    }
}
