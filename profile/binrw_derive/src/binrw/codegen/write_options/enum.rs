use super::{prelude::PreludeGenerator, r#struct::StructGenerator};
use crate::binrw::{
    codegen::sanitization::{OPT, WRITER, WRITE_METHOD},
    parser::{Enum, EnumVariant, Input, UnitEnumField, UnitOnlyEnum},
};
use proc_macro2::{Ident, TokenStream};
use quote::quote;

pub(crate) fn generate_unit_enum(
    input: &Input,
    name: Option<&Ident>,
    en: &UnitOnlyEnum,
) -> TokenStream {
    let writer_var = input.stream_ident_or(WRITER);
    let write = match en.map.as_repr() {
        Some(repr) => generate_unit_enum_repr(&writer_var, repr, &en.fields),
        None => generate_unit_enum_magic(&writer_var, &en.fields),
    };

    PreludeGenerator::new(write, input, name, &writer_var)
        .prefix_map_stream()
        .prefix_magic(&en.magic)
        .prefix_assertions()
        .prefix_endian(&en.endian)
        .prefix_imports()
        .finish()
}

pub(crate) fn generate_data_enum(input: &Input, name: Option<&Ident>, en: &Enum) -> TokenStream {
    EnumGenerator::new(input, name, en, input.stream_ident_or(WRITER))
        .write_variants()
        .prefix_prelude()
        .finish()
}

struct EnumGenerator<'a> {
    en: &'a Enum,
    input: &'a Input,
    name: Option<&'a Ident>,
    writer_var: TokenStream,
    out: TokenStream,
}

impl<'a> EnumGenerator<'a> {
    fn new(
        input: &'a Input,
        name: Option<&'a Ident>,
        en: &'a Enum,
        writer_var: TokenStream,
    ) -> Self {
        Self {
            input,
            name,
            en,
            writer_var,
            out: TokenStream::new(),
        }
    }

    fn write_variants(mut self) -> Self {
        let variants = self.en.variants.iter().map(|variant| {
            let name = variant.ident();
            let fields = match variant {
                EnumVariant::Variant { options, .. } => Some(options.fields_pattern()),
                EnumVariant::Unit(_) => None,
            };

            let writer_var = &self.writer_var;
            let writing = match variant {
                EnumVariant::Variant { options, .. } => {
                    let input = Input::Struct(variant.clone().into());

                    StructGenerator::new(&input, options, None, &self.writer_var)
                        .write_fields()
                        .prefix_prelude()
                        .finish()
                }
                EnumVariant::Unit(variant) => variant
                    .magic
                    .as_ref()
                    .map(|magic| {
                        let magic = magic.match_value();
                        quote! {
                            #WRITE_METHOD (
                                &#magic,
                                #writer_var,
                                #OPT,
                                ()
                            )?;
                        }
                    })
                    .unwrap_or_default(),
            };

            quote! {
                Self::#name #fields => {
                    #writing
                }
            }
        });

        self.out = quote! {
            match self {
                #( #variants )*
            }
        };

        self
    }

    fn prefix_prelude(mut self) -> Self {
        let out = self.out;

        self.out = PreludeGenerator::new(out, self.input, self.name, &self.writer_var)
            .prefix_map_stream()
            .prefix_magic(&self.en.magic)
            .prefix_assertions()
            .prefix_endian(&self.en.endian)
            .prefix_imports()
            .finish();

        self
    }

    fn finish(self) -> TokenStream {
        self.out
    }
}

fn generate_unit_enum_repr(
    writer_var: &TokenStream,
    repr: &TokenStream,
    variants: &[UnitEnumField],
) -> TokenStream {
    let branches = variants.iter().map(|variant| {
        let name = &variant.ident;
        quote! {
            Self::#name => Self::#name
        }
    });

    quote! {
        #WRITE_METHOD (
            &(match self {
                #(#branches),*
            } as #repr),
            #writer_var,
            #OPT,
            (),
        )?;
    }
}

fn generate_unit_enum_magic(writer_var: &TokenStream, variants: &[UnitEnumField]) -> TokenStream {
    let branches = variants.iter().map(|variant| {
        let name = &variant.ident;
        let magic = variant.magic.as_ref().map(|magic| {
            let magic = magic.match_value();

            quote! {
                #WRITE_METHOD (
                    &#magic,
                    #writer_var,
                    #OPT,
                    (),
                )?;
            }
        });

        quote! {
            Self::#name => {
                #magic
            }
        }
    });

    quote! {
        match self {
            #( #branches )*
        }
    }
}
