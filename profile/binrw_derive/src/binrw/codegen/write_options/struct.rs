use super::{prelude::PreludeGenerator, struct_field::write_field};
use crate::binrw::{
    codegen::sanitization::{THIS, WRITER},
    parser::{Input, Struct},
};
use proc_macro2::TokenStream;
use quote::quote;
use syn::Ident;

pub(super) fn generate_struct(input: &Input, name: Option<&Ident>, st: &Struct) -> TokenStream {
    StructGenerator::new(input, st, name, &input.stream_ident_or(WRITER))
        .write_fields()
        .prefix_prelude()
        .prefix_borrow_fields()
        .prefix_imports()
        .finish()
}

pub(super) struct StructGenerator<'input> {
    input: &'input Input,
    st: &'input Struct,
    name: Option<&'input Ident>,
    writer_var: &'input TokenStream,
    out: TokenStream,
}

impl<'input> StructGenerator<'input> {
    pub(super) fn new(
        input: &'input Input,
        st: &'input Struct,
        name: Option<&'input Ident>,
        writer_var: &'input TokenStream,
    ) -> Self {
        Self {
            input,
            st,
            name,
            writer_var,
            out: TokenStream::new(),
        }
    }

    pub(super) fn prefix_imports(mut self) -> Self {
        self.out = PreludeGenerator::new(self.out, self.input, self.name, self.writer_var)
            .prefix_imports()
            .finish();

        self
    }

    pub(super) fn prefix_prelude(mut self) -> Self {
        self.out = PreludeGenerator::new(self.out, self.input, self.name, self.writer_var)
            .prefix_map_stream()
            .prefix_magic(&self.st.magic)
            .prefix_endian(&self.st.endian)
            .prefix_assertions()
            .finish();

        self
    }

    pub(super) fn write_fields(mut self) -> Self {
        let write_fields = self
            .st
            .fields
            .iter()
            .map(|field| write_field(self.writer_var, field));

        self.out = quote! {
            #(#write_fields)*
        };

        self
    }

    pub(super) fn prefix_borrow_fields(mut self) -> Self {
        let borrow_fields = self.name.map(|name| {
            let pattern = self.st.fields_pattern();

            Some(quote! {
                let #name #pattern = self;
            })
        });

        let out = self.out;
        self.out = quote! {
            let #THIS = self;
            #borrow_fields
            #out
        };

        self
    }

    pub(super) fn finish(self) -> TokenStream {
        self.out
    }
}
