use crate::{
    binrw::{
        codegen::{
            get_assertions, get_endian, get_map_err, get_passed_args, get_try_calc,
            sanitization::{
                make_ident, BEFORE_POS, BINWRITE_TRAIT, MAP_WRITER_TYPE_HINT, POS,
                REQUIRED_ARG_TRAIT, SAVED_POSITION, SEEK_FROM, SEEK_TRAIT, WRITE_ARGS_TYPE_HINT,
                WRITE_FN_MAP_OUTPUT_TYPE_HINT, WRITE_FN_TRY_MAP_OUTPUT_TYPE_HINT,
                WRITE_FN_TYPE_HINT, WRITE_FUNCTION, WRITE_MAP_ARGS_TYPE_HINT,
                WRITE_MAP_INPUT_TYPE_HINT, WRITE_METHOD, WRITE_TRY_MAP_ARGS_TYPE_HINT,
                WRITE_ZEROES,
            },
        },
        parser::{FieldMode, Map, StructField},
    },
    util::quote_spanned_any,
};
use alloc::borrow::Cow;
use core::ops::Not;
use proc_macro2::TokenStream;
use quote::{quote, quote_spanned, ToTokens};
use syn::{spanned::Spanned, Ident};

pub(crate) fn write_field(writer_var: &TokenStream, field: &StructField) -> TokenStream {
    StructFieldGenerator::new(field, writer_var)
        .write_field()
        .wrap_map_stream()
        .prefix_map_value()
        .prefix_calc_value()
        .wrap_padding()
        .prefix_magic()
        .wrap_condition()
        .prefix_assertions()
        .prefix_args()
        .prefix_write_function()
        .prefix_map_function()
        .finish()
}

struct StructFieldGenerator<'input> {
    field: &'input StructField,
    outer_writer_var: &'input TokenStream,
    writer_var: Cow<'input, TokenStream>,
    out: TokenStream,
}

impl<'a> StructFieldGenerator<'a> {
    fn new(field: &'a StructField, outer_writer_var: &'a TokenStream) -> Self {
        Self {
            field,
            outer_writer_var,
            writer_var: if field.map_stream.is_some() {
                Cow::Owned(make_ident(&field.ident, "reader").into_token_stream())
            } else {
                Cow::Borrowed(outer_writer_var)
            },
            out: TokenStream::new(),
        }
    }

    fn prefix_assertions(mut self) -> Self {
        let assertions = get_assertions(&self.field.assertions);

        let out = self.out;
        self.out = quote! {
            #(#assertions)*
            #out
        };

        self
    }

    fn wrap_map_stream(mut self) -> Self {
        if let Some(map_stream) = &self.field.map_stream {
            let rest = self.out;
            let writer_var = &self.writer_var;
            let outer_writer_var = self.outer_writer_var;
            self.out = quote_spanned_any! { map_stream.span()=> {
                let #writer_var = &mut #MAP_WRITER_TYPE_HINT::<W, _, _>(#map_stream)(#outer_writer_var);
                #rest
            }};
        }

        self
    }

    fn prefix_write_function(mut self) -> Self {
        if !self.field.is_written() {
            return self;
        }

        let write_fn = match &self.field.field_mode {
            FieldMode::Normal | FieldMode::Calc(_) | FieldMode::TryCalc(_) => {
                quote! { #WRITE_METHOD }
            }
            FieldMode::Function(write_fn) => write_fn.clone(),
            FieldMode::Default => unreachable!("Ignored fields are not written"),
        };

        let write_fn = if self.field.map.is_some() {
            let map_fn = map_func_ident(&self.field.ident);
            if self.field.map.is_try() {
                quote! { #WRITE_FN_TRY_MAP_OUTPUT_TYPE_HINT(&#map_fn, #write_fn) }
            } else {
                quote! { #WRITE_FN_MAP_OUTPUT_TYPE_HINT(&#map_fn, #write_fn) }
            }
        } else {
            let ty = &self.field.ty;
            quote! { #WRITE_FN_TYPE_HINT::<#ty, _, _, _>(#write_fn) }
        };

        let out = self.out;
        self.out = quote! {
            let #WRITE_FUNCTION = #write_fn;
            #out
        };

        self
    }

    fn prefix_map_function(mut self) -> Self {
        let map_func = field_mapping(&self.field.map).map(|map_fn| {
            let map_func = map_func_ident(&self.field.ident);

            let ty = &self.field.ty;
            let ty_ref = self.field.generated_value().not().then(|| quote! { & });
            quote! {
                let #map_func = #WRITE_MAP_INPUT_TYPE_HINT::<#ty_ref #ty, _, _>(#map_fn);
            }
        });

        let out = self.out;
        self.out = quote! {
            #map_func
            #out
        };

        self
    }

    fn prefix_calc_value(mut self) -> Self {
        let name = &self.field.ident;
        let ty = &self.field.ty;
        let expr = match &self.field.field_mode {
            FieldMode::Calc(expr) => expr.clone(),
            FieldMode::TryCalc(expr) => get_try_calc(POS, &self.field.ty, expr),
            _ => return self,
        };

        let rest = self.out;
        self.out = quote! {
            let #name: #ty = #expr;
            #rest
        };

        self
    }

    fn prefix_map_value(mut self) -> Self {
        let name = &self.field.ident;
        let map_func = self.field.map.is_some().then(|| map_func_ident(name));

        self.out = match &self.field.map {
            Map::None => return self,
            Map::Map(_) => {
                let rest = self.out;
                quote! {
                    let #name = #map_func(#name);
                    #rest
                }
            }
            Map::Try(t) | Map::Repr(t) => {
                let rest = self.out;
                let map_err = get_map_err(SAVED_POSITION, t.span());
                let outer_writer_var = self.outer_writer_var;
                quote! {
                    let #name = {
                        let #SAVED_POSITION = #SEEK_TRAIT::stream_position(#outer_writer_var)?;
                        #map_func(#name)#map_err?
                    };
                    #rest
                }
            }
        };

        self
    }

    fn write_field(mut self) -> Self {
        if !self.field.is_written() {
            return self;
        }

        let name = &self.field.ident;
        let args = args_ident(name);
        let endian = get_endian(&self.field.endian);
        let writer_var = &self.writer_var;

        let name = self
            .field
            .if_cond
            .as_ref()
            .and_then(|cond| {
                cond.alternate.as_ref().map(|alternate| {
                    let condition = &cond.condition;
                    quote! {
                        if #condition {
                            #name
                        } else {
                            &#alternate
                        }
                    }
                })
            })
            .unwrap_or_else(|| quote_spanned! { name.span()=> &#name });

        self.out = quote! {
            #WRITE_FUNCTION(
                #name,
                #writer_var,
                #endian,
                #args
            )?;
        };

        self
    }

    fn wrap_condition(mut self) -> Self {
        if let Some(cond) = &self.field.if_cond {
            if cond.alternate.is_none() {
                let condition = &cond.condition;
                let consequent = self.out;
                self.out = quote! {
                    if #condition {
                        #consequent
                    }
                };
            }
        }

        self
    }

    fn wrap_padding(mut self) -> Self {
        let out = self.out;

        let pad_before = pad_before(self.outer_writer_var, self.field);
        let pad_after = pad_after(self.outer_writer_var, self.field);
        self.out = quote! {
            #pad_before
            #out
            #pad_after
        };

        self
    }

    fn prefix_args(mut self) -> Self {
        if !self.field.is_written() {
            return self;
        }

        let args = args_ident(&self.field.ident);

        let args_val = if let Some(args) = get_passed_args(self.field, self.outer_writer_var) {
            args
        } else {
            quote_spanned! { self.field.ty.span() => <_ as #REQUIRED_ARG_TRAIT>::args() }
        };

        let map_fn = map_func_ident(&self.field.ident);
        let out = self.out;
        self.out = match &self.field.field_mode {
            FieldMode::Normal => match &self.field.map {
                Map::Map(_) => quote! {
                    let #args = #WRITE_MAP_ARGS_TYPE_HINT(&#map_fn, #args_val);
                    #out
                },
                Map::Try(_) | Map::Repr(_) => quote! {
                    let #args = #WRITE_TRY_MAP_ARGS_TYPE_HINT(&#map_fn, #args_val);
                    #out
                },
                Map::None => {
                    let ty = &self.field.ty;
                    quote! {
                        let #args: <#ty as #BINWRITE_TRAIT>::Args<'_> = #args_val;
                        #out
                    }
                }
            },
            FieldMode::Calc(_) | FieldMode::TryCalc(_) => quote! {
                let #args = ();
                #out
            },
            FieldMode::Function(_) => {
                let ty = &self.field.ty;
                quote! {
                    let #args = #WRITE_ARGS_TYPE_HINT::<#ty, _, _, _>(
                        #WRITE_FUNCTION, #args_val
                    );
                    #out
                }
            }
            FieldMode::Default => unreachable!("Ignored fields are not written"),
        };

        self
    }

    fn prefix_magic(mut self) -> Self {
        if let Some(magic) = &self.field.magic {
            let magic = magic.match_value();
            let endian = get_endian(&self.field.endian);
            let writer_var = self.outer_writer_var;
            let out = self.out;
            self.out = quote! {
                #WRITE_METHOD (
                    &#magic,
                    #writer_var,
                    #endian,
                    ()
                )?;

                #out
            };
        }

        self
    }

    fn finish(self) -> TokenStream {
        self.out
    }
}

fn args_ident(ident: &Ident) -> Ident {
    make_ident(ident, "args")
}

fn field_mapping(map: &Map) -> Option<TokenStream> {
    match map {
        Map::Try(map_fn) | Map::Map(map_fn) => Some(quote! { (#map_fn) }),
        Map::Repr(ty) => Some(quote! { (<#ty as core::convert::TryFrom<_>>::try_from) }),
        Map::None => None,
    }
}

fn map_func_ident(ident: &Ident) -> Ident {
    make_ident(ident, "map_func")
}

fn pad_after(writer_var: &TokenStream, field: &StructField) -> TokenStream {
    let pad_size_to = field.pad_size_to.as_ref().map(|size| {
        quote! {{
            let pad_to_size = (#size) as u64;
            let after_pos = #SEEK_TRAIT::stream_position(#writer_var)?;
            if let Some(size) = after_pos.checked_sub(#BEFORE_POS) {
                if let Some(padding) = pad_to_size.checked_sub(size) {
                    #WRITE_ZEROES(#writer_var, padding)?;
                }
            }
        }}
    });
    let pad_after = field.pad_after.as_ref().map(|padding| {
        quote! {
            #WRITE_ZEROES(#writer_var, (#padding) as u64)?;
        }
    });
    let align_after = field.align_after.as_ref().map(|alignment| {
        quote! {{
            let pos = #SEEK_TRAIT::stream_position(#writer_var)?;
            let align = ((#alignment) as u64);
            let rem = pos % align;
            if rem != 0 {
                #WRITE_ZEROES(#writer_var, align - rem)?;
            }
        }}
    });
    let restore_position = field.restore_position.map(|()| {
        quote! {
            #SEEK_TRAIT::seek(#writer_var, #SEEK_FROM::Start(#SAVED_POSITION))?;
        }
    });

    quote! {
        #pad_size_to
        #pad_after
        #align_after
        #restore_position
    }
}

fn pad_before(writer_var: &TokenStream, field: &StructField) -> TokenStream {
    let seek_before = field.seek_before.as_ref().map(|seek| {
        quote! {
            #SEEK_TRAIT::seek(
                #writer_var,
                #seek,
            )?;
        }
    });
    let pad_before = field.pad_before.as_ref().map(|padding| {
        quote! {
            #WRITE_ZEROES(#writer_var, (#padding) as u64)?;
        }
    });
    let align_before = field.align_before.as_ref().map(|alignment| {
        quote! {{
            let pos = #SEEK_TRAIT::stream_position(#writer_var)?;
            let align = ((#alignment) as u64);
            let rem = pos % align;
            if rem != 0 {
                #WRITE_ZEROES(#writer_var, align - rem)?;
            }
        }}
    });
    let pad_size_to_before = field.pad_size_to.as_ref().map(|_| {
        quote! {
            let #BEFORE_POS = #SEEK_TRAIT::stream_position(#writer_var)?;
        }
    });
    let store_position = field.restore_position.map(|()| {
        quote! {
            let #SAVED_POSITION = #SEEK_TRAIT::stream_position(#writer_var)?;
        }
    });

    quote! {
        #store_position
        #seek_before
        #pad_before
        #align_before
        #pad_size_to_before
    }
}
