use crate::{
    meta_types::IdentTypeMaybeDefault,
    util::{from_crate, ident_str},
};
use proc_macro2::TokenStream;
use quote::{quote, ToTokens};
use syn::{GenericArgument, GenericParam, Ident, Type, Visibility};

ident_str! {
    SATISFIED_OR_OPTIONAL = from_crate!(__private::SatisfiedOrOptional);
    SATISFIED = from_crate!(__private::Satisfied);
    NEEDED = from_crate!(__private::Needed);
    OPTIONAL = from_crate!(__private::Optional);
    NAMED_ARGS = from_crate!(NamedArgs);
}

// Lint: Describing which field name is which prevents confusion.
#[allow(clippy::struct_field_names)]
pub(super) struct Builder<'a> {
    pub(super) owner_name: Option<&'a Ident>,
    pub(super) builder_name: &'a Ident,
    pub(super) result_name: &'a Ident,
    pub(super) fields: &'a [BuilderField],
    pub(super) generics: &'a [GenericParam],
    pub(super) vis: &'a Visibility,
    pub(super) is_write: bool,
}

impl Builder<'_> {
    pub(super) fn generate(&self, define_result: bool) -> TokenStream {
        let builder_name = self.builder_name;
        let name = self.result_name;
        let user_bounds = {
            let generics = self.generics;
            quote! { #( #generics, )* }
        };
        let vis = self.vis;
        let user_generic_args = self.user_generic_args();
        let fields = self.generate_result_fields();
        let builder_fields = self.generate_builder_fields();
        let initial = self.generate_builder_initial();
        let generics = self.generate_generics();
        let initial_generics = self.generate_initial_generics();
        let setters = self.generate_setters(&user_generic_args);
        let satisfied = {
            let satisfied = SATISFIED_OR_OPTIONAL;
            quote! {
                #( #generics : #satisfied ),*
            }
        };
        let field_names = self.fields.iter().map(|field| &field.name);
        let possible_unwrap = self.fields.iter().map(BuilderField::possible_unwrap);
        let optional_finalizers = self.optional_finalizers();
        let generics = quote! { #( #generics ),* };

        let res_struct = if define_result {
            let docs = self.owner_name.map(|owner_name| {
                let (impl_name, impl_fn) = if self.is_write {
                    ("BinWrite", "write_options")
                } else {
                    ("BinRead", "read_options")
                };
                format!(
                    "Named arguments for the [`{impl_name}::{impl_fn}`](::binrw::{impl_name}::{impl_fn}) implementation of [`{owner_name}`].",
                )
            });

            let derives = if self.are_all_fields_optional() {
                quote!(#[derive(Clone, Default)])
            } else {
                quote!(#[derive(Clone)])
            };
            Some(quote!(
                #derives
                #[doc = #docs]
                #vis struct #name < #user_bounds > {
                    #fields
                }
            ))
        } else {
            None
        };

        let builder_docs = format!(
            "A builder for [`{name}`] objects. Compatible with [`binrw::args!`](::binrw::args)."
        );

        quote!(
            #res_struct

            impl< #user_bounds > #name < #user_generic_args > {
                /// Creates a new builder for this type.
                #vis fn builder() -> #builder_name < #user_generic_args #initial_generics > {
                    #initial
                }
            }

            impl< #user_bounds > #NAMED_ARGS for #name < #user_generic_args > {
                type Builder = #builder_name < #user_generic_args #initial_generics >;

                fn builder() -> Self::Builder {
                    Self::builder()
                }
            }

            #( #setters )*

            #[doc = #builder_docs]
            #[allow(non_camel_case_types)]
            #vis struct #builder_name < #user_bounds #generics > {
                #builder_fields
                __bind_generics: ::core::marker::PhantomData<( #generics )>
            }

            #optional_finalizers

            #[allow(non_camel_case_types)]
            impl<
                #user_bounds
                #satisfied
            >
                #builder_name
                <
                    #user_generic_args
                    #generics
                >
            {
                /// Builds the object.
                #vis fn finalize(self) -> #name < #user_generic_args > {
                    let #builder_name {
                        #( #field_names, )*
                        ..
                    } = self;

                    #name {
                        #( #possible_unwrap, )*
                    }
                }
            }
        )
    }

    fn user_generic_args(&self) -> TokenStream {
        let args = self.generics.iter().map(|generic| match generic {
            GenericParam::Type(ty) => GenericArgument::Type(Type::Path(syn::TypePath {
                qself: None,
                path: ty.ident.clone().into(),
            })),
            GenericParam::Const(cnst) => GenericArgument::Const(syn::Expr::Path(syn::ExprPath {
                attrs: Vec::new(),
                qself: None,
                path: cnst.ident.clone().into(),
            })),
            GenericParam::Lifetime(lt) => GenericArgument::Lifetime(lt.lifetime.clone()),
        });

        quote! { #(#args,)* }
    }

    fn generate_builder_fields(&self) -> TokenStream {
        let fields = self.fields.iter().map(BuilderField::generate_builder_field);
        quote!(
            #( #fields )*
        )
    }

    fn generate_result_fields(&self) -> TokenStream {
        let fields = self.fields.iter().map(BuilderField::generate_result_field);
        quote!(
            #( #fields )*
        )
    }

    fn generate_generics(&self) -> Vec<Ident> {
        self.fields.iter().map(BuilderField::as_generic).collect()
    }

    fn generate_builder_initial(&self) -> TokenStream {
        let name = self.builder_name;
        let defaults = self.fields.iter().map(BuilderField::initial_value);
        quote!(
            #name {
                #( #defaults )*
                __bind_generics: ::core::marker::PhantomData
            }
        )
    }

    fn generate_initial_generics(&self) -> TokenStream {
        let generics = self.fields.iter().map(BuilderField::initial_generic);
        quote! { #(#generics,)* }
    }

    fn generate_setters<'builder>(
        &'builder self,
        user_generic_args: &'builder TokenStream,
    ) -> impl Iterator<Item = TokenStream> + 'builder {
        let builder_name = self.builder_name;
        let user_bounds = self.generics;
        self.fields.iter().enumerate().map(move |(i, field)| {
            let generics = self.generate_generics();
            let vis = self.vis;

            // The current field is not generic
            let generic_params = generics
                .iter()
                .enumerate()
                .filter_map(|(n, p)| (n != i).then_some(p));

            // The generics required for the builder should be generic for all parameters
            // except the current field, which is set to its initial state
            let required_generics = generics.iter().enumerate().map(|(n, t)| {
                if n == i {
                    field.initial_generic()
                } else {
                    t.to_token_stream()
                }
            });

            // the resulting generics should be the same as before, but with the type for
            // the current field being marked as satisfied.
            let resulting_generics = generics.iter().enumerate().map(|(n, t)| {
                if n == i {
                    SATISFIED.to_token_stream()
                } else {
                    t.to_token_stream()
                }
            });

            let field_names = {
                let names = self.fields.iter().map(|field| &field.name);
                quote! { #( #names, )* }
            };
            let field_name = &field.name;
            let ty = &field.ty;
            let docs = format!("Sets `{field_name}` to the given value.");

            let field_result = match field.kind {
                BuilderFieldKind::Required | BuilderFieldKind::TryOptional => quote!(Some(val)),
                BuilderFieldKind::Optional { .. } => quote!(val),
            };

            quote!(
                #[allow(non_camel_case_types, unused_variables)]
                impl<
                    #( #user_bounds, )*
                    #( #generic_params ),*
                > #builder_name < #user_generic_args #( #required_generics ),* > {
                    #[doc = #docs]
                    #vis fn #field_name(
                        self, val: #ty
                    ) -> #builder_name < #user_generic_args #( #resulting_generics ),* > {
                        let #builder_name {
                            #field_names
                            ..
                        } = self;

                        let #field_name = #field_result;

                        #builder_name {
                            #field_names
                            __bind_generics: ::core::marker::PhantomData
                        }
                    }
                }
            )
        })
    }

    fn are_all_fields_optional(&self) -> bool {
        self.fields
            .iter()
            .all(|field| matches!(field.kind, BuilderFieldKind::Optional { .. }))
    }

    fn optional_finalizers(&self) -> TokenStream {
        if !self
            .fields
            .iter()
            .any(|field| matches!(field.kind, BuilderFieldKind::TryOptional))
        {
            return <_>::default();
        }
        let builder_name = self.builder_name;
        let name = self.result_name;
        let user_bounds = self.generics;
        let vis = self.vis;
        let user_generic_args = self.user_generic_args();
        let generics = self.generate_generics();
        let field_names = {
            let names = self.fields.iter().map(|field| &field.name);
            quote! { #(#names,)* }
        };
        let possible_unwrap = {
            let unwraps = self
                .fields
                .iter()
                .map(BuilderField::possible_unwrap_or_default);
            quote! { #(#unwraps,)* }
        };

        let finalizers = self
            .fields
            .iter()
            .enumerate()
            .filter(|(_, field)| matches!(field.kind, BuilderFieldKind::TryOptional))
            .map(|(i, field)| {
                let current_field_ty = &field.ty;
                let satisfied_generics = generics.iter().enumerate().map(|(n, generic)| {
                    if i == n {
                        quote!(#NEEDED)
                    } else {
                        quote!(#generic)
                    }
                });
                let filtered_generics = generics.iter().enumerate().filter_map(|(n, generic)| {
                    if i == n {
                        None
                    } else {
                        Some(quote!(#generic : #SATISFIED_OR_OPTIONAL))
                    }
                });

                quote! {
                    #[allow(non_camel_case_types)]
                    impl<
                        #( #user_bounds, )*
                        #( #filtered_generics ),*
                    >
                        #builder_name
                        <
                            #user_generic_args
                            #( #satisfied_generics ),*
                        >
                    where
                        #current_field_ty: Default,
                    {
                        /// Builds the object.
                        #vis fn finalize(self) -> #name < #user_generic_args > {
                            let #builder_name {
                                #field_names
                                ..
                            } = self;

                            #name {
                                #possible_unwrap
                            }
                        }
                    }
                }
            });

        quote! { #(#finalizers)* }
    }
}

pub(super) struct BuilderField {
    pub(super) name: Ident,
    pub(super) ty: Type,
    pub(super) kind: BuilderFieldKind,
}

impl BuilderField {
    fn generate_builder_field(&self) -> TokenStream {
        let name = &self.name;
        let ty = &self.ty;
        let ty = match self.kind {
            BuilderFieldKind::Required | BuilderFieldKind::TryOptional => quote!(Option<#ty>),
            BuilderFieldKind::Optional { .. } => quote!(#ty),
        };
        quote!(
            #name: #ty,
        )
    }

    fn generate_result_field(&self) -> TokenStream {
        let name = &self.name;
        let ty = &self.ty;
        quote!(
            #name: #ty,
        )
    }

    fn as_generic(&self) -> Ident {
        quote::format_ident!("Field_{}", self.name)
    }

    fn initial_value(&self) -> TokenStream {
        let name = &self.name;
        match self.kind {
            BuilderFieldKind::Required | BuilderFieldKind::TryOptional => quote!(
                #name: None,
            ),
            BuilderFieldKind::Optional { ref default } => quote!(
                #name: #default,
            ),
        }
    }

    fn initial_generic(&self) -> TokenStream {
        match self.kind {
            BuilderFieldKind::Required | BuilderFieldKind::TryOptional => quote!( #NEEDED ),
            BuilderFieldKind::Optional { .. } => quote!( #OPTIONAL ),
        }
    }

    fn possible_unwrap(&self) -> TokenStream {
        let name = &self.name;
        match self.kind {
            BuilderFieldKind::Required | BuilderFieldKind::TryOptional => {
                quote! { #name: #name.unwrap() }
            }
            BuilderFieldKind::Optional { .. } => quote! { #name },
        }
    }

    fn possible_unwrap_or_default(&self) -> TokenStream {
        let name = &self.name;
        match self.kind {
            BuilderFieldKind::Required => quote!( #name: #name.unwrap() ),
            BuilderFieldKind::Optional { .. } => quote! { #name },
            BuilderFieldKind::TryOptional => quote! { #name: #name.unwrap_or_default() },
        }
    }
}

impl From<IdentTypeMaybeDefault> for BuilderField {
    fn from(import: IdentTypeMaybeDefault) -> Self {
        let name = import.ident;
        let ty = import.ty;

        // if no default is provided, mark as required
        let kind = import
            .default
            .map_or(BuilderFieldKind::Required, |default| {
                BuilderFieldKind::Optional { default }
            });

        BuilderField { name, ty, kind }
    }
}

pub(super) enum BuilderFieldKind {
    Required,
    TryOptional,
    Optional { default: Box<syn::Expr> },
}
