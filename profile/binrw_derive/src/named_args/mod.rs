mod codegen;

use crate::meta_types::IdentTypeMaybeDefault;
use codegen::{Builder, BuilderField, BuilderFieldKind};
use proc_macro2::{Span, TokenStream};
use quote::format_ident;
use syn::{
    parse::{Parse, ParseStream},
    spanned::Spanned,
    DeriveInput, Expr, Ident, Token, Visibility,
};

pub(crate) fn arg_type_name(ty_name: &Ident, is_write: bool) -> Ident {
    if is_write {
        format_ident!("{}BinWriteArgs", ty_name, span = Span::mixed_site())
    } else {
        format_ident!("{}BinReadArgs", ty_name, span = Span::mixed_site())
    }
}

pub(crate) fn derive_from_imports(
    ty_name: &Ident,
    is_write: bool,
    result_name: &Ident,
    vis: &Visibility,
    lifetime: Option<syn::Lifetime>,
    args: impl Iterator<Item = IdentTypeMaybeDefault>,
) -> TokenStream {
    let builder_name = &if is_write {
        format_ident!("{}BinWriteArgBuilder", ty_name, span = Span::mixed_site())
    } else {
        format_ident!("{}BinReadArgBuilder", ty_name, span = Span::mixed_site())
    };

    Builder {
        owner_name: Some(ty_name),
        is_write,
        builder_name,
        result_name,
        fields: &args.map(Into::into).collect::<Vec<_>>(),
        generics: lifetime
            .map(|lifetime| [syn::GenericParam::Lifetime(syn::LifetimeDef::new(lifetime))])
            .as_ref()
            .map_or(&[], |generics| generics.as_slice()),
        vis,
    }
    .generate(true)
}

#[cfg_attr(coverage_nightly, coverage(off))]
pub(crate) fn derive_from_input(input: DeriveInput) -> TokenStream {
    from_input(input).unwrap_or_else(syn::Error::into_compile_error)
}

fn from_input(input: DeriveInput) -> syn::Result<TokenStream> {
    if let syn::Data::Struct(s) = input.data {
        let mut has_try_optional = false;
        let fields = s
            .fields
            .into_iter()
            .map(|field| {
                let attrs = field.attrs.iter().filter_map(|attr| {
                    attr.path
                        .get_ident()
                        .filter(|ident| *ident == "named_args")
                        .map(|_| attr.parse_args::<NamedArgAttr>())
                });

                let mut kind = BuilderFieldKind::Required;
                for attr in attrs {
                    match attr? {
                        NamedArgAttr::Default(default) => {
                            kind = BuilderFieldKind::Optional { default }
                        }
                        NamedArgAttr::TryOptional(span) => {
                            if has_try_optional {
                                return Err(syn::Error::new(
                                    span,
                                    "cannot have more than one `try_optional` per struct",
                                ));
                            }
                            has_try_optional = true;
                            kind = BuilderFieldKind::TryOptional;
                            break;
                        }
                    }
                }

                Ok(BuilderField {
                    kind,
                    name: match field.ident {
                        Some(ident) => ident,
                        None => {
                            return Err(syn::Error::new(
                                field.span(),
                                "tuple structs are not supported",
                            ))
                        }
                    },
                    ty: field.ty.clone(),
                })
            })
            .collect::<Result<Vec<_>, syn::Error>>()?;

        Ok(Builder {
            owner_name: None,
            is_write: false,
            result_name: &input.ident,
            builder_name: &quote::format_ident!("{}Builder", input.ident),
            fields: &fields,
            generics: &input.generics.params.iter().cloned().collect::<Vec<_>>(),
            vis: &input.vis,
        }
        .generate(false))
    } else {
        Err(syn::Error::new(input.span(), "only structs are supported"))
    }
}

enum NamedArgAttr {
    Default(Box<Expr>),
    TryOptional(Span),
}

impl Parse for NamedArgAttr {
    fn parse(input: ParseStream<'_>) -> syn::Result<Self> {
        let lookahead = input.lookahead1();

        if lookahead.peek(kw::try_optional) {
            Ok(NamedArgAttr::TryOptional(
                input.parse::<kw::try_optional>()?.span(),
            ))
        } else if lookahead.peek(kw::default) {
            input.parse::<kw::default>()?;
            input.parse::<Token![=]>()?;
            Ok(NamedArgAttr::Default(Box::new(input.parse()?)))
        } else {
            Err(lookahead.error())
        }
    }
}

mod kw {
    syn::custom_keyword!(default);
    syn::custom_keyword!(try_optional);
}

#[cfg(coverage)]
#[cfg_attr(coverage_nightly, coverage(off))]
#[test]
fn derive_named_args_code_coverage_for_tool() {
    use runtime_macros_derive::emulate_derive_expansion_fallible;
    let file = std::fs::File::open("../binrw/tests/named_args.rs").unwrap();
    emulate_derive_expansion_fallible(file, "NamedArgs", |input| derive_from_input(input)).unwrap();
}

#[cfg(test)]
mod tests {
    use super::*;

    #[cfg_attr(coverage_nightly, coverage(off))]
    fn try_input(input: TokenStream) {
        from_input(syn::parse2::<DeriveInput>(input).unwrap()).unwrap();
    }

    macro_rules! try_error (
        ($name:ident: $message:literal $tt:tt) => {
            #[test]
            #[cfg_attr(coverage_nightly, coverage(off))]
            #[should_panic(expected = $message)]
            fn $name() {
                try_input(quote::quote! $tt);
            }
        };
    );

    try_error!(invalid_attr_name: "expected `try_optional` or `default`" {
        struct Foo<A> {
            #[named_args(invalid)]
            a: A,
        }
    });

    try_error!(invalid_attr_syntax: "unexpected token" {
        struct Foo<A> {
            #[named_args(try_optional, invalid)]
            a: A,
        }
    });

    try_error!(invalid_enum: "only structs" {
        enum Foo {}
    });

    try_error!(invalid_tuple: "tuple structs are not supported" {
        struct Foo<A>(A);
    });

    try_error!(invalid_union: "only structs" {
        union Foo {}
    });

    try_error!(missing_default_eq_value: "expected `=`" {
        struct Foo<A> {
            #[named_args(default)]
            a: A,
        }
    });

    try_error!(missing_default_value: "expected expression" {
        struct Foo<A> {
            #[named_args(default = )]
            a: A,
        }
    });

    try_error!(multiple_try_optional: "more than one `try_optional`" {
        struct Foo<A, B> {
            #[named_args(try_optional)]
            a: A,
            #[named_args(try_optional)]
            b: B,
        }
    });
}
