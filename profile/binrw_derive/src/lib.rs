#![warn(clippy::pedantic)]
#![warn(rust_2018_idioms)]
#![cfg_attr(nightly, feature(proc_macro_span))]
#![cfg_attr(coverage_nightly, feature(coverage_attribute))]

extern crate alloc;

mod binrw;
mod fn_helper;
mod meta_types;
mod named_args;
mod result;
pub(crate) mod util;

use proc_macro::TokenStream;
use syn::{parse_macro_input, DeriveInput};

#[proc_macro_attribute]
#[cfg_attr(coverage_nightly, coverage(off))]
pub fn binread(attr: TokenStream, input: TokenStream) -> TokenStream {
    binrw::derive_from_attribute(&attr, input, false)
}

#[proc_macro_derive(BinRead, attributes(br, brw))]
#[cfg_attr(coverage_nightly, coverage(off))]
pub fn binread_derive(input: TokenStream) -> TokenStream {
    binrw::derive_from_input(
        parse_macro_input!(input as DeriveInput),
        binrw::Options {
            derive: true,
            write: false,
        },
    )
    .into()
}

#[proc_macro_attribute]
#[cfg_attr(coverage_nightly, coverage(off))]
pub fn binrw(attr: TokenStream, input: TokenStream) -> TokenStream {
    if attr.to_string() == "ignore" {
        input
    } else {
        binrw::binrw_derive(parse_macro_input!(input as DeriveInput)).into()
    }
}

#[proc_macro_derive(BinWrite, attributes(bw, brw))]
#[cfg_attr(coverage_nightly, coverage(off))]
pub fn binwrite_derive(input: TokenStream) -> TokenStream {
    binrw::derive_from_input(
        parse_macro_input!(input as DeriveInput),
        binrw::Options {
            derive: true,
            write: true,
        },
    )
    .into()
}

#[proc_macro_attribute]
#[cfg_attr(coverage_nightly, coverage(off))]
pub fn binwrite(attr: TokenStream, input: TokenStream) -> TokenStream {
    binrw::derive_from_attribute(&attr, input, true)
}

#[proc_macro_derive(NamedArgs, attributes(named_args))]
#[cfg_attr(coverage_nightly, coverage(off))]
pub fn named_args_derive(input: TokenStream) -> TokenStream {
    named_args::derive_from_input(parse_macro_input!(input as DeriveInput)).into()
}

#[proc_macro_attribute]
#[cfg_attr(coverage_nightly, coverage(off))]
pub fn parser(attr: TokenStream, input: TokenStream) -> TokenStream {
    fn_helper::derive_from_attribute::<false>(attr, input)
}

#[proc_macro_attribute]
#[cfg_attr(coverage_nightly, coverage(off))]
pub fn writer(attr: TokenStream, input: TokenStream) -> TokenStream {
    fn_helper::derive_from_attribute::<true>(attr, input)
}

fn combine_error(all_errors: &mut Option<syn::Error>, new_error: syn::Error) {
    if let Some(all_errors) = all_errors {
        all_errors.combine(new_error);
    } else {
        *all_errors = Some(new_error);
    }
}
