use proc_macro2::{Ident, Span, TokenStream};
use quote::{quote, ToTokens, TokenStreamExt};

macro_rules! ident_str {
    () => {};

    ($vis:vis $ident:ident = $path:expr; $($tail:tt)*) => {
        ident_str!($vis $ident = $path);
        ident_str!($($tail)*);
    };

    ($vis:vis $ident:ident = $path:expr) => {
        $vis const $ident: $crate::util::IdentStr =
            $crate::util::IdentStr::new($path);
    };
}
pub(crate) use ident_str;

macro_rules! from_crate {
    ($path:path) => {
        concat!("binrw::", stringify!($path))
    };
}
pub(crate) use from_crate;

pub(crate) trait ToSpannedTokens {
    fn to_spanned_tokens(&self, tokens: &mut TokenStream, span: Span);
}

impl<T: ToTokens> ToSpannedTokens for &T {
    fn to_spanned_tokens(&self, tokens: &mut TokenStream, _: Span) {
        self.to_tokens(tokens);
    }
}

/// A string wrapper that converts the str to a $path `TokenStream`, allowing
/// for constant-time idents that can be shared across threads
#[derive(Clone, Copy)]
pub(crate) struct IdentStr(&'static str);

impl IdentStr {
    #[cfg_attr(coverage_nightly, coverage(off))] // const-only function
    pub(crate) const fn new(str: &'static str) -> Self {
        IdentStr(str)
    }

    pub(crate) fn iter(&self, span: Span) -> impl Iterator<Item = Ident> + '_ {
        self.0.split("::").map(move |ident| Ident::new(ident, span))
    }

    pub(crate) fn to_ident(self, span: Span) -> Ident {
        Ident::new(self.0, span)
    }
}

impl ToTokens for IdentStr {
    fn to_tokens(&self, tokens: &mut TokenStream) {
        tokens.append_separated(self.iter(Span::call_site()), quote!(::));
    }
}

impl ToSpannedTokens for IdentStr {
    fn to_spanned_tokens(&self, tokens: &mut TokenStream, span: Span) {
        tokens.append_separated(self.iter(span), quote::quote_spanned!(span=> ::));
    }
}

/// Like `quote::quote_spanned!`, except allows interpolations to optionally
/// have their spans overridden by implementing the `ToSpannedTokens` trait.
/// Currently, for laziness/YAGNI reasons, repetitions fall back to
/// `quote::quote_spanned!`, so interpolated tokens inside repetitions will
/// not have overridden spans.
macro_rules! quote_spanned_any {
    (@group $ts:ident $span:ident $delimiter:ident $($tt:tt)*) => {
        let mut _inner_ts = proc_macro2::TokenStream::new();
        $crate::util::quote_spanned_any!(@tt _inner_ts $span $($tt)*);
        quote::TokenStreamExt::append(&mut $ts, {
            let mut group = proc_macro2::Group::new(proc_macro2::Delimiter::$delimiter, _inner_ts);
            group.set_span($span);
            group
        });
    };

    (@tt $ts:ident $span:ident { $($inner:tt)* } $($tt:tt)*) => {
        $crate::util::quote_spanned_any!(@group $ts $span Brace $($inner)*);
        $crate::util::quote_spanned_any!(@tt $ts $span $($tt)*);
    };

    (@tt $ts:ident $span:ident [ $($inner:tt)* ] $($tt:tt)*) => {
        $crate::util::quote_spanned_any!(@group $ts $span Bracket $($inner)*);
        $crate::util::quote_spanned_any!(@tt $ts $span $($tt)*);
    };

    (@tt $ts:ident $span:ident ( $($inner:tt)* ) $($tt:tt)*) => {
        $crate::util::quote_spanned_any!(@group $ts $span Parenthesis $($inner)*);
        $crate::util::quote_spanned_any!(@tt $ts $span $($tt)*);
    };

    (@tt $ts:ident $span:ident # ( $($inner:tt)* ) * * $($tt:tt)*) => {
        $ts.extend(quote::quote_spanned!($span=> #( $($inner)* ) * *));
        $crate::util::quote_spanned_any!(@tt $ts $span $($tt)*);
    };

    (@tt $ts:ident $span:ident # ( $($inner:tt)* ) * $($tt:tt)*) => {
        $ts.extend(quote::quote_spanned!($span=> #( $($inner)* ) *));
        $crate::util::quote_spanned_any!(@tt $ts $span $($tt)*);
    };

    (@tt $ts:ident $span:ident # ( $($inner:tt)* ) $sep:tt * $($tt:tt)*) => {
        $ts.extend(quote::quote_spanned!($span=> #( $($inner)* ) $sep *));
        $crate::util::quote_spanned_any!(@tt $ts $span $($tt)*);
    };

    (@tt $ts:ident $span:ident # $ident:ident $($tt:tt)*) => {
        (&$ident).to_spanned_tokens(&mut $ts, $span);
        $crate::util::quote_spanned_any!(@tt $ts $span $($tt)*);
    };

    (@tt $ts:ident $span:ident $token:tt $($tt:tt)*) => {
        $ts.extend(quote::quote_spanned!($span=> $token));
        $crate::util::quote_spanned_any!(@tt $ts $span $($tt)*);
    };

    (@tt $ts:ident $span:ident) => {};

    ($span:expr => $($tt:tt)*) => { {
        #[allow(unused_imports)]
        use $crate::util::ToSpannedTokens;
        let mut _ts = proc_macro2::TokenStream::new();
        let _span = $span;
        $crate::util::quote_spanned_any!(@tt _ts _span $($tt)*);
        _ts
    } }
}
pub(crate) use quote_spanned_any;
