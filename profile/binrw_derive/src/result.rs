#[derive(Debug, Eq, PartialEq)]
pub(crate) enum PartialResult<T, E> {
    Ok(T),
    Partial(T, E),
    Err(E),
}

impl<T, E> PartialResult<T, E> {
    #[cfg(test)]
    pub(crate) fn err(self) -> Option<E> {
        match self {
            PartialResult::Ok(_) => None,
            PartialResult::Partial(_, error) | PartialResult::Err(error) => Some(error),
        }
    }

    pub(crate) fn map<F, U>(self, f: F) -> PartialResult<U, E>
    where
        F: FnOnce(T) -> U,
    {
        match self {
            PartialResult::Ok(value) => PartialResult::Ok(f(value)),
            PartialResult::Partial(value, error) => PartialResult::Partial(f(value), error),
            PartialResult::Err(error) => PartialResult::Err(error),
        }
    }

    pub(crate) fn ok(self) -> Option<T> {
        match self {
            PartialResult::Ok(value) | PartialResult::Partial(value, _) => Some(value),
            PartialResult::Err(_) => None,
        }
    }
}

impl<T, E: core::fmt::Debug> PartialResult<T, E> {
    #[cfg(test)]
    #[track_caller]
    pub(crate) fn unwrap(self) -> T {
        match self {
            PartialResult::Ok(value) => value,
            PartialResult::Partial(_, error) => panic!(
                "called `PartialResult::unwrap()` on a `Partial` value: {:?}",
                &error
            ),
            PartialResult::Err(error) => panic!(
                "called `PartialResult::unwrap()` on an `Err` value: {:?}",
                &error
            ),
        }
    }

    pub(crate) fn unwrap_tuple(self) -> (T, Option<E>) {
        match self {
            PartialResult::Ok(value) => (value, None),
            PartialResult::Partial(value, error) => (value, Some(error)),
            PartialResult::Err(error) => panic!(
                "called `PartialResult::unwrap_tuple()` on an `Err` value: {:?}",
                &error
            ),
        }
    }
}

#[cfg(test)]
mod tests {
    use super::*;

    #[derive(Debug, Eq, PartialEq)]
    struct Pass;

    #[derive(Debug, Eq, PartialEq)]
    struct Error;

    #[test]
    #[cfg_attr(coverage_nightly, coverage(off))]
    fn err() {
        assert_eq!(PartialResult::<_, Error>::Ok(Pass).err(), None);
        assert_eq!(PartialResult::Partial(Pass, Error).err(), Some(Error));
        assert_eq!(PartialResult::<Pass, _>::Err(Error).err(), Some(Error));
    }

    #[test]
    #[cfg_attr(coverage_nightly, coverage(off))]
    fn map() {
        assert_eq!(
            PartialResult::<_, Error>::Ok(()).map(|()| Pass),
            PartialResult::Ok(Pass)
        );
        assert_eq!(
            PartialResult::Partial((), Error).map(|()| Pass),
            PartialResult::Partial(Pass, Error)
        );
        assert_eq!(
            PartialResult::<(), _>::Err(Error).map(|()| Pass),
            PartialResult::Err(Error)
        );
    }

    #[test]
    #[cfg_attr(coverage_nightly, coverage(off))]
    fn ok() {
        assert_eq!(PartialResult::<_, Error>::Ok(Pass).ok(), Some(Pass));
        assert_eq!(PartialResult::Partial(Pass, Error).ok(), Some(Pass));
        assert_eq!(PartialResult::<Pass, _>::Err(Error).ok(), None);
    }

    #[test]
    fn unwrap() {
        assert_eq!(PartialResult::<_, Error>::Ok(Pass).unwrap(), Pass);
    }

    #[test]
    #[cfg_attr(coverage_nightly, coverage(off))]
    #[should_panic(expected = "called `PartialResult::unwrap()` on an `Err` value")]
    fn unwrap_err() {
        PartialResult::<Pass, _>::Err(Error).unwrap();
    }

    #[test]
    #[cfg_attr(coverage_nightly, coverage(off))]
    #[should_panic(expected = "called `PartialResult::unwrap()` on a `Partial` value")]
    fn unwrap_partial() {
        PartialResult::Partial(Pass, Error).unwrap();
    }

    #[test]
    #[cfg_attr(coverage_nightly, coverage(off))]
    fn unwrap_tuple() {
        assert_eq!(
            PartialResult::<_, Error>::Ok(Pass).unwrap_tuple(),
            (Pass, None)
        );
        assert_eq!(
            PartialResult::Partial(Pass, Error).unwrap_tuple(),
            (Pass, Some(Error))
        );
    }

    #[test]
    #[cfg_attr(coverage_nightly, coverage(off))]
    #[should_panic(expected = "called `PartialResult::unwrap_tuple()` on an `Err` value")]
    fn unwrap_tuple_err() {
        PartialResult::<Pass, _>::Err(Error).unwrap_tuple();
    }
}
