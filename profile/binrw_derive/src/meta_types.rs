use proc_macro2::{Span, TokenStream};
use quote::ToTokens;
use syn::{
    braced, parenthesized,
    parse::{Parse, ParseStream},
    punctuated::Punctuated,
    spanned::Spanned,
    token::{self, Token},
    Expr, Ident, Lit, Token, Type,
};

pub(crate) trait KeywordToken {
    type Token: Token;

    fn display() -> &'static str {
        <Self::Token as Token>::display()
    }

    fn dyn_display(&self) -> &'static str {
        Self::display()
    }

    fn keyword_span(&self) -> Span;
}

type Fields<T> = Punctuated<T, Token![,]>;

/// `MetaExpr` represents a key/expr pair
/// Takes two forms:
/// * ident(expr)
/// * ident = expr
///
/// both are always allowed
pub(crate) type MetaExpr<Keyword> = MetaValue<Keyword, Expr>;

/// `MetaType` represents a key/ty pair
/// Takes two forms:
/// * ident(ty)
/// * ident = ty
///
/// both are always allowed
pub(crate) type MetaType<Keyword> = MetaValue<Keyword, Type>;

/// `MetaIdent` represents a key/ident pair
/// Takes two forms:
/// * ident(ident)
/// * ident = ident
///
/// both are always allowed
pub(crate) type MetaIdent<Keyword> = MetaValue<Keyword, Ident>;

/// `MetaLit` represents a key/lit pair
/// Takes two forms:
/// * ident(lit)
/// * ident = lit
///
/// both are always allowed
pub(crate) type MetaLit<Keyword> = MetaValue<Keyword, Lit>;

#[derive(Debug, Clone)]
pub(crate) struct MetaValue<Keyword, Value> {
    pub(crate) ident: Keyword,
    pub(crate) value: Value,
}

impl<Keyword: Token + Spanned> KeywordToken for MetaVoid<Keyword> {
    type Token = Keyword;

    fn keyword_span(&self) -> Span {
        self.ident.span()
    }
}

impl<Keyword: Parse, Value: Parse> Parse for MetaValue<Keyword, Value> {
    fn parse(input: ParseStream<'_>) -> syn::Result<Self> {
        let ident = input.parse()?;
        let value = if input.peek(token::Paren) {
            let content;
            parenthesized!(content in input);
            content.parse()?
        } else {
            input.parse::<Token![=]>()?;
            input.parse()?
        };

        Ok(MetaValue { ident, value })
    }
}

impl<Keyword, Value: ToTokens> From<MetaValue<Keyword, Value>> for TokenStream {
    fn from(value: MetaValue<Keyword, Value>) -> Self {
        value.value.into_token_stream()
    }
}

impl<Keyword> From<MetaValue<Keyword, Ident>> for Ident {
    fn from(value: MetaValue<Keyword, Ident>) -> Self {
        value.value
    }
}

impl<Keyword, Value: ToTokens> ToTokens for MetaValue<Keyword, Value> {
    fn to_tokens(&self, tokens: &mut TokenStream) {
        self.value.to_tokens(tokens);
    }
}

impl<Keyword: Token + Spanned, Value> KeywordToken for MetaValue<Keyword, Value> {
    type Token = Keyword;

    fn keyword_span(&self) -> Span {
        self.ident.span()
    }
}

#[derive(Debug, Clone)]
pub(crate) struct MetaVoid<Keyword> {
    pub(crate) ident: Keyword,
}

impl<Keyword: Parse> Parse for MetaVoid<Keyword> {
    fn parse(input: ParseStream<'_>) -> syn::Result<Self> {
        Ok(MetaVoid {
            ident: input.parse()?,
        })
    }
}

impl<Keyword> From<MetaVoid<Keyword>> for () {
    fn from(_: MetaVoid<Keyword>) -> Self {}
}

#[derive(Debug, Clone)]
pub(crate) struct MetaList<Keyword, ItemType> {
    pub(crate) ident: Keyword,
    pub(crate) fields: Fields<ItemType>,
}

impl<Keyword: Parse, ItemType: Parse> Parse for MetaList<Keyword, ItemType> {
    fn parse(input: ParseStream<'_>) -> syn::Result<Self> {
        let ident = input.parse()?;
        let content;
        parenthesized!(content in input);
        Ok(MetaList {
            ident,
            fields: content.parse_terminated::<_, Token![,]>(ItemType::parse)?,
        })
    }
}

impl<Keyword: Token + Spanned, ItemType> KeywordToken for MetaList<Keyword, ItemType> {
    type Token = Keyword;

    fn keyword_span(&self) -> Span {
        self.ident.span()
    }
}

#[derive(Debug, Clone)]
pub(crate) enum Enclosure<ParenType, BraceType> {
    Paren { fields: Fields<ParenType> },
    Brace { fields: Fields<BraceType> },
}

#[derive(Debug, Clone)]
pub(crate) struct MetaEnclosedList<Keyword, ParenItemType, BraceItemType> {
    pub(crate) ident: Keyword,
    pub(crate) list: Enclosure<ParenItemType, BraceItemType>,
}

impl<Keyword, ParenItemType, BraceItemType> Parse
    for MetaEnclosedList<Keyword, ParenItemType, BraceItemType>
where
    Keyword: Parse,
    ParenItemType: Parse,
    BraceItemType: Parse,
{
    fn parse(input: ParseStream<'_>) -> syn::Result<Self> {
        let ident = input.parse()?;
        let content;
        let lookahead = input.lookahead1();
        if lookahead.peek(token::Paren) {
            parenthesized!(content in input);
            Ok(Self {
                ident,
                list: Enclosure::Paren {
                    fields: content.parse_terminated::<_, Token![,]>(ParenItemType::parse)?,
                },
            })
        } else if lookahead.peek(token::Brace) {
            braced!(content in input);
            Ok(Self {
                ident,
                list: Enclosure::Brace {
                    fields: content.parse_terminated::<_, Token![,]>(BraceItemType::parse)?,
                },
            })
        } else {
            Err(lookahead.error())
        }
    }
}

impl<Keyword: Token + Spanned, ParenItemType, BraceItemType> KeywordToken
    for MetaEnclosedList<Keyword, ParenItemType, BraceItemType>
{
    type Token = Keyword;

    fn keyword_span(&self) -> Span {
        self.ident.span()
    }
}

// This is like `syn::PatType` except:
// (1) Implements `Parse`;
// (2) No attributes;
// (3) Only allows an ident on the LHS instead of any `syn::Pat`.
#[derive(Debug, Clone)]
pub(crate) struct IdentPatType {
    pub(crate) ident: syn::Ident,
    pub(crate) ty: syn::Type,
}

impl Parse for IdentPatType {
    fn parse(input: ParseStream<'_>) -> syn::Result<Self> {
        let ident = input.parse()?;
        input.parse::<Token![:]>()?;
        let ty = input.parse()?;
        Ok(Self { ident, ty })
    }
}

// This is like `syn::PatType` except:
// (1) Implements `Parse`;
// (2) No attributes;
// (3) Only allows an ident on the LHS instead of any `syn::Pat`.
// (4) Optionally allows a `= $expr` following the type
#[derive(Debug, Clone)]
pub(crate) struct IdentTypeMaybeDefault {
    pub(crate) ident: syn::Ident,
    pub(crate) ty: syn::Type,
    pub(crate) default: Option<Box<syn::Expr>>,
}

impl Parse for IdentTypeMaybeDefault {
    fn parse(input: ParseStream<'_>) -> syn::Result<Self> {
        let ident = input.parse()?;
        input.parse::<Token![:]>()?;
        let ty = input.parse()?;
        let default = if input.lookahead1().peek(Token![=]) {
            input.parse::<Token![=]>()?;
            Some(input.parse()?)
        } else {
            None
        };

        Ok(Self { ident, ty, default })
    }
}

pub(crate) struct MetaAttrList<P>(Fields<P>);

impl<P> MetaAttrList<P> {
    pub(crate) fn into_iter(self) -> impl Iterator<Item = P> {
        self.0.into_iter()
    }
}

impl<P: Parse> Parse for MetaAttrList<P> {
    fn parse(input: ParseStream<'_>) -> syn::Result<Self> {
        let content;
        parenthesized!(content in input);
        Ok(MetaAttrList(Fields::parse_terminated(&content)?))
    }
}

#[cfg(test)]
mod tests {
    use super::*;

    mod kw {
        syn::custom_keyword!(test);
        syn::custom_keyword!(test_list);
        syn::custom_keyword!(test_enclosed_list);
    }

    type MetaValueTest = MetaValue<kw::test, Lit>;
    type MetaListTest = MetaList<kw::test_list, Lit>;
    type MetaAttrListTest = MetaAttrList<Lit>;
    type MetaEnclosedListTest = MetaEnclosedList<kw::test_enclosed_list, Lit, Lit>;

    macro_rules! try_parse {
        ($name:ident, $ty:ty, $tt:tt) => {
            #[test]
            #[cfg_attr(coverage_nightly, coverage(off))]
            fn $name() {
                syn::parse2::<$ty>(quote::quote! $tt).unwrap();
            }
        }
    }

    macro_rules! try_parse_fail {
        ($name:ident, $message:literal, $ty:ty, $tt:tt) => {
            #[test]
            #[cfg_attr(coverage_nightly, coverage(off))]
            #[should_panic = $message]
            fn $name() {
                syn::parse2::<$ty>(quote::quote! $tt).unwrap();
            }
        }
    }

    try_parse!(meta_keyword, kw::test, { test });

    try_parse!(meta_value_assign, MetaValueTest, { test = 3u8 });
    try_parse!(meta_value_paren, MetaValueTest, { test(b"TEST") });
    try_parse_fail!(meta_value_missing_keyword, "expected `test`", MetaValueTest, { = 3u8 });
    try_parse_fail!(meta_value_missing_value, "expected `=`", MetaValueTest, {
        test
    });
    try_parse_fail!(
        meta_value_wrong_keyword,
        "expected `test`",
        MetaValueTest,
        { wrong = 3u8 }
    );
    try_parse_fail!(
        meta_value_wrong_value_type,
        "expected literal",
        MetaValueTest,
        { test = u8 }
    );
    try_parse_fail!(
        meta_value_confused_as_list,
        "unexpected token",
        MetaValueTest,
        { test(3u8, 3u8) }
    );

    #[test]
    #[cfg_attr(coverage_nightly, coverage(off))]
    fn meta_value_into_tokenstream() {
        let expected = quote::quote! { 0u8 };
        let value = syn::parse2::<MetaValueTest>(quote::quote! { test = #expected }).unwrap();
        assert_eq!(expected.to_string(), TokenStream::from(value).to_string());
    }

    #[test]
    #[cfg_attr(coverage_nightly, coverage(off))]
    fn meta_value_to_tokens() {
        let expected = quote::quote! { 0u8 };
        let value = syn::parse2::<MetaValueTest>(quote::quote! { test = #expected }).unwrap();
        let mut actual = TokenStream::new();
        value.to_tokens(&mut actual);
        assert_eq!(expected.to_string(), actual.to_string());
    }

    #[test]
    #[cfg_attr(coverage_nightly, coverage(off))]
    fn meta_value_keyword_token() {
        use syn::spanned::Spanned;
        let keyword = quote::quote! { test };
        let value = syn::parse2::<MetaValueTest>(quote::quote! { #keyword = 0u8 }).unwrap();
        assert_eq!(
            format!("{:?}", keyword.span()),
            format!("{:?}", value.keyword_span())
        );
    }

    try_parse!(meta_list, MetaListTest, { test_list(3u8, 3u8) });
    try_parse!(meta_list_empty, MetaListTest, { test_list() });
    try_parse_fail!(
        meta_list_missing_keyword,
        "expected `test_list`",
        MetaListTest,
        { (3u8, 3u8) }
    );
    try_parse_fail!(
        meta_list_missing_value,
        "unexpected end of input",
        MetaListTest,
        { test_list }
    );
    try_parse_fail!(
        meta_list_wrong_delimiter,
        "expected parentheses",
        MetaListTest,
        { test_list = (3u8, 3u8) }
    );
    try_parse_fail!(
        meta_list_wrong_keyword,
        "expected `test_list`",
        MetaListTest,
        { wrong }
    );
    try_parse_fail!(
        meta_list_wrong_item_type,
        "expected literal",
        MetaListTest,
        { test_list(i32) }
    );

    try_parse!(meta_enclosed_list_paren, MetaEnclosedListTest, {
        test_enclosed_list(3u8, 3u8)
    });
    try_parse!(meta_enclosed_list_paren_empty, MetaEnclosedListTest, {
        test_enclosed_list()
    });
    try_parse!(meta_enclosed_list_brace, MetaEnclosedListTest, { test_enclosed_list { 3u8, 3u8 } });
    try_parse!(meta_enclosed_list_brace_empty, MetaEnclosedListTest, {
        test_enclosed_list {}
    });
    try_parse_fail!(
        meta_enclosed_list_wrong_keyword,
        "expected `test_enclosed_list`",
        MetaEnclosedListTest,
        { wrong }
    );
    try_parse_fail!(
        meta_enclosed_list_wrong_delimiter,
        "expected parentheses or curly braces",
        MetaEnclosedListTest,
        { test_enclosed_list = (3u8, 3u8) }
    );
    try_parse_fail!(
        meta_enclosed_list_wrong_bracket_kind,
        "expected parentheses or curly braces",
        MetaEnclosedListTest,
        { test_enclosed_list [] }
    );
    try_parse_fail!(
        meta_enclosed_list_wrong_item_type,
        "expected literal",
        MetaEnclosedListTest,
        { test_enclosed_list(i32) }
    );

    #[test]
    #[cfg_attr(coverage_nightly, coverage(off))]
    fn meta_list_keyword_token() {
        use syn::spanned::Spanned;
        let keyword = quote::quote! { test_list };
        let value = syn::parse2::<MetaListTest>(quote::quote! { #keyword(0u8, 0u8) }).unwrap();
        assert_eq!(
            format!("{:?}", keyword.span()),
            format!("{:?}", value.keyword_span())
        );
    }

    try_parse!(ident_pat_type, IdentPatType, { foo: u8 });
    try_parse_fail!(ident_pat_type_missing_ident, "expected identifier", IdentPatType, { : 3u8 });
    try_parse_fail!(ident_pat_type_missing_ty, "unexpected end of input", IdentPatType, { foo: });
    try_parse_fail!(ident_pat_type_wrong_ty_type, "expected one of", IdentPatType, { foo: 3u8 });

    try_parse!(ident_type_default, IdentTypeMaybeDefault, { foo: u8 = 1 });
    try_parse!(ident_type_no_default, IdentTypeMaybeDefault, { foo: u8 });
    try_parse_fail!(ident_type_missing_type, "unexpected end of input", IdentTypeMaybeDefault, { foo: });
    try_parse_fail!(ident_type_missing_colon, "expected `:`", IdentTypeMaybeDefault, { foo u8 });
    try_parse_fail!(ident_type_missing_ident, "expected identifier", IdentTypeMaybeDefault, { :u8 });

    try_parse!(meta_attr_list, MetaAttrListTest, { (1u8, 2u8, 3u8) });
    try_parse!(meta_attr_list_empty, MetaAttrListTest, { () });
    try_parse_fail!(
        meta_attr_list_wrong_type,
        "expected literal",
        MetaAttrListTest,
        { (i32) }
    );
    try_parse_fail!(
        meta_attr_list_confused_as_list,
        "expected parentheses",
        MetaAttrListTest,
        { wrong(i32) }
    );

    #[test]
    #[cfg_attr(coverage_nightly, coverage(off))]
    fn meta_attr_list_into_iter() {
        let expected = [
            Lit::new(proc_macro2::Literal::u8_suffixed(1)),
            Lit::new(proc_macro2::Literal::u8_suffixed(2)),
            Lit::new(proc_macro2::Literal::u8_suffixed(3)),
        ];

        let value = syn::parse2::<MetaAttrListTest>(quote::quote! { (1u8, 2u8, 3u8) }).unwrap();
        assert_eq!(expected, value.into_iter().collect::<Vec<_>>()[..]);
    }
}
