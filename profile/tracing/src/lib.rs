//! No-op stand-in for `tracing` used only in verification builds.
pub use tracing_noop_attrs::instrument;
#[macro_export] macro_rules! trace { ($($arg:tt)*) => {{ if false { let _ = ::core::format_args!($($arg)*); } }}; }
#[macro_export] macro_rules! debug { ($($arg:tt)*) => {{ if false { let _ = ::core::format_args!($($arg)*); } }}; }
#[macro_export] macro_rules! info  { ($($arg:tt)*) => {{ if false { let _ = ::core::format_args!($($arg)*); } }}; }
#[macro_export] macro_rules! warn  { ($($arg:tt)*) => {{ if false { let _ = ::core::format_args!($($arg)*); } }}; }
#[macro_export] macro_rules! error { ($($arg:tt)*) => {{ if false { let _ = ::core::format_args!($($arg)*); } }}; }
