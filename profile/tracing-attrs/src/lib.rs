use proc_macro::TokenStream;
#[proc_macro_attribute]
pub fn instrument(_attr: TokenStream, item: TokenStream) -> TokenStream { item }
