#!/usr/bin/env python3
"""Driver for the solver-based checks (Kani 0.68 -> CBMC 6.11 -> CaDiCaL).

    run_check.py <PROPERTY> [--tier quick|thorough] [--only <harness-substring>] [--keep]
    run_check.py --replay <path>
    run_check.py --setup

Exit status: 0 property held on every harness that closed (plus KNOWN-FINDING lines);
             1 a counterexample was found, reproduced natively on the stock build and is not a
               listed finding  ->  "VIOLATION property=<id> replay=<path>";
             2 inconclusive / machinery problem (timeout, out of memory, unwinding bound too
               small, unsupported construct, non-reproducing counterexample, vacuous harness,
               spec out of date).  Never reported as success and never as a violation.
"""
import argparse, concurrent.futures as cf, json, os, re, resource, shutil, signal, subprocess, sys, threading, time

HERE = os.path.dirname(os.path.abspath(__file__))
VERIF = os.path.dirname(HERE)
sys.path.insert(0, HERE)
import registry  # noqa: E402

REPO = os.environ.get("VERIF_REPO", "/repo")
WORK_ROOT = os.environ.get("VERIF_WORK", os.path.join(VERIF, ".work"))
SEED_DIR = os.path.join(VERIF, ".cache", "seed_target")
MEM_LIMIT_GB = int(os.environ.get("VERIF_MEM_GB", "20"))
ENV = dict(os.environ, CARGO_NET_OFFLINE="true", CARGO_TERM_COLOR="never", RUST_BACKTRACE="0")
ENV.pop("RUSTUP_TOOLCHAIN", None)

PROFILE_ASSUMPTIONS = [
    "profile(a): `tracing` replaced by a no-op crate (Kani ICEs on tracing call sites); logging is the subject of no property",
    "profile(b): binrw/binrw_derive 0.14.2 vendored with reporting code reduced: with_context/with_message identity, recursive Error variants Backtrace/EnumErrors removed, data-enum reader forgets per-variant errors, magic mismatch reported as NoVariantMatch instead of BadMagic{Box<dyn Debug>}, count_with integer fast paths replaced by the generic element path; which error VALUE is returned is outside every claim, whether one is returned is not",
    "trusted: rustc/Kani MIR->goto translation, CBMC 6.11, CaDiCaL; Kani's sequential models of alloc/memcpy; std/bytes/indexmap are executed as compiled, not modelled",
    "every harness result is bounded by its #[kani::unwind] value with unwinding assertions ON: a too-small bound is reported as inconclusive, never as success",
]


def log(*a):
    print(*a, flush=True)


# ----------------------------------------------------------------------------------------------
# work directory
# ----------------------------------------------------------------------------------------------
def snapshot_repo(dst):
    """Copy the four crates + workspace manifest of /repo's *current working tree* (fresh mtimes, so
    cargo always rebuilds them; a seed cache can therefore never hide a source change)."""
    os.makedirs(dst)
    for name in ["Cargo.toml", "Cargo.lock", "README.md"]:
        p = os.path.join(REPO, name)
        if os.path.exists(p):
            shutil.copyfile(p, os.path.join(dst, name))
    for crate in ["insim_core", "insim", "insim_pth", "insim_smx", "examples"]:
        shutil.copytree(os.path.join(REPO, crate), os.path.join(dst, crate), copy_function=shutil.copyfile,
                        ignore=shutil.ignore_patterns("target"))
    now = time.time()
    for root, _, files in os.walk(dst):
        for f in files:
            os.utime(os.path.join(root, f), (now, now))


def make_crate(work, stock=False):
    """Instantiate the harness crate in `work/crate` (or `work/rcrate` with stock dependencies)."""
    snap = os.path.join(work, "repo")
    if not os.path.exists(snap):
        snapshot_repo(snap)
    dst = os.path.join(work, "rcrate" if stock else "crate")
    if os.path.exists(dst):
        shutil.rmtree(dst)
    shutil.copytree(os.path.join(VERIF, "kani"), dst)
    man = open(os.path.join(dst, "Cargo.toml")).read().replace("/repo/", snap + "/")
    man = man.replace("/verif/profile/", os.path.join(VERIF, "profile") + "/")
    if stock:
        a, b = man.index("[patch.crates-io]"), man.index("[lints.rust]")
        man = man[:a] + man[b:]
    open(os.path.join(dst, "Cargo.toml"), "w").write(man)
    shutil.copyfile(os.path.join(REPO, "Cargo.lock"), os.path.join(dst, "Cargo.lock"))
    env = dict(ENV, VERIF_REPO=snap)
    r = subprocess.run([sys.executable, os.path.join(HERE, "gen_harness.py"), os.path.join(dst, "src")], env=env,
                       capture_output=True, text=True)
    if r.returncode != 0:
        log(r.stdout + r.stderr)
        raise SystemExit(2)
    return dst


def seed_worker(tdir):
    if os.path.isdir(SEED_DIR) and not os.path.exists(tdir):
        subprocess.run(["cp", "-r", "--reflink=auto", SEED_DIR, tdir], check=False)


# ----------------------------------------------------------------------------------------------
# running one harness
# ----------------------------------------------------------------------------------------------
def _limits():
    os.setsid()
    lim = MEM_LIMIT_GB * (1 << 30)
    resource.setrlimit(resource.RLIMIT_AS, (lim, lim))


def group_rss_mb(pgid):
    """Resident memory of a process group (the cargo-kani -> kani-driver -> cbmc tree), in MB."""
    total = 0
    for pid in os.listdir("/proc"):
        if not pid.isdigit():
            continue
        try:
            with open("/proc/%s/stat" % pid) as f:
                st = f.read()
            fields = st[st.rindex(")") + 2:].split()
            if int(fields[2]) != pgid:
                continue
            with open("/proc/%s/statm" % pid) as f:
                total += int(f.read().split()[1]) * 4096
        except (OSError, ValueError, IndexError):
            continue
    return total // (1 << 20)


def mem_available_mb():
    try:
        for line in open("/proc/meminfo"):
            if line.startswith("MemAvailable:"):
                return int(line.split()[1]) // 1024
    except OSError:
        pass
    return 1 << 30


def run_cmd(cmd, cwd, timeout, logfile, env=None, limit=True, mem_cap_mb=None):
    """Run with a wall-clock cap and a resident-memory cap (this box has no swap: a CBMC run that is
    going to need > 10 GB never finishes in reach and endangers the other runs). Returns
    (rc, why_killed or None, wall, peak_rss_mb)."""
    t0 = time.time()
    peak, why = 0, None
    with open(logfile, "w") as lf:
        p = subprocess.Popen(cmd, cwd=cwd, stdout=lf, stderr=subprocess.STDOUT, env=env or ENV,
                             preexec_fn=_limits if limit else os.setsid)
        while True:
            try:
                rc = p.wait(timeout=3)
                break
            except subprocess.TimeoutExpired:
                pass
            rss = group_rss_mb(p.pid)
            peak = max(peak, rss)
            if time.time() - t0 > timeout:
                why = "wall-clock cap of %ds reached" % timeout
            elif mem_cap_mb and rss > mem_cap_mb:
                why = "memory cap of %d MB exceeded (%d MB resident)" % (mem_cap_mb, rss)
            elif rss > 3000 and mem_available_mb() < 4000:
                why = "machine ran short of memory (%d MB resident here)" % rss
            if why:
                try:
                    os.killpg(p.pid, signal.SIGKILL)
                except ProcessLookupError:
                    pass
                p.wait()
                rc = -9
                break
    return rc, why, time.time() - t0, peak


CHECK_BLOCK_RE = re.compile(r"^Check (\d+): ([^\n]+)\n(.*?)(?=^Check \d+: |^SUMMARY:|\Z)", re.M | re.S)


def iter_checks(text):
    for m in CHECK_BLOCK_RE.finditer(text):
        num, name, body = m.groups()
        st = re.search(r"- Status: (\w+)", body)
        de = re.search(r"- Description: \"(.*?)\"\s*(?:\n\t - Location: ([^\n]*))?\s*\Z", body, re.S)
        if not st:
            continue
        desc = de.group(1) if de else ""
        loc = (de.group(2) or "") if de else ""
        yield num, name, st.group(1), desc, loc


def norm_desc(d):
    """Kani quotes string-literal messages twice and keeps line breaks of multi-line panic messages."""
    d = " ".join(d.split())
    while len(d) >= 2 and d[0] == '"' and d[-1] == '"':
        d = d[1:-1]
    return d


def parse_kani_log(text, allowed_fail=None):
    res = {"status": "inconclusive", "reason": "", "failed_checks": [], "checks_total": 0, "checks_failed": 0,
           "unreachable": 0, "covers_sat": 0, "covers_total": 0, "verif_time": None, "solver_s": 0.0,
           "sat_vars": 0, "sat_clauses": 0, "stubs": []}
    for m in re.finditer(r"Runtime decision procedure: ([0-9.]+)s", text):
        res["solver_s"] += float(m.group(1))
    for m in re.finditer(r"^(\d+) variables, (\d+) clauses", text, re.M):
        res["sat_vars"] = max(res["sat_vars"], int(m.group(1)))
        res["sat_clauses"] = max(res["sat_clauses"], int(m.group(2)))
    m = re.search(r"Verification Time: ([0-9.]+)s", text)
    if m:
        res["verif_time"] = float(m.group(1))
    m = re.search(r"\*\* (\d+) of (\d+) failed(?: \((.*?)\))?", text)
    if m:
        res["checks_failed"], res["checks_total"] = int(m.group(1)), int(m.group(2))
        if m.group(3):
            u = re.search(r"(\d+) unreachable", m.group(3))
            if u:
                res["unreachable"] = int(u.group(1))
    m = re.search(r"\*\* (\d+) of (\d+) cover properties satisfied", text)
    if m:
        res["covers_sat"], res["covers_total"] = int(m.group(1)), int(m.group(2))
    res["cover_unsat"] = []
    failed = []
    for num, name, status, desc, loc in iter_checks(text):
        desc = norm_desc(desc)
        if status == "FAILURE":
            failed.append({"check": name, "description": desc, "location": loc.strip()})
        if status in ("UNSATISFIABLE", "UNREACHABLE") and ".cover." in name:
            res["cover_unsat"].append(desc)
    res["refusals"] = []
    if allowed_fail:
        # loud refusals (panics located in the named function) are the specified behaviour, not failures
        rx = re.compile(allowed_fail)
        res["refusals"] = [f for f in failed if rx.search(f["check"] + " | " + f["location"])]
        failed = [f for f in failed if not rx.search(f["check"] + " | " + f["location"])]
        res["checks_failed"] -= len(res["refusals"])
    res["failed_checks"] = failed
    if "VERIFICATION:- SUCCESSFUL" in text:
        res["status"] = "success"
    elif "VERIFICATION:- FAILED" in text and allowed_fail and not failed and res["refusals"]:
        res["status"] = "success"
        res["reason"] = "%d loud refusal(s) inside the allowed function; assertion after the call unreachable" % len(res["refusals"])
    elif "VERIFICATION:- FAILED" in text:
        descs = [f["description"] for f in failed]
        if not failed:
            res["status"], res["reason"] = "inconclusive", "FAILED without failed checks (solver/driver error, possibly out of memory)"
        elif any("unwinding assertion" in d for d in descs):
            res["status"], res["reason"] = "inconclusive", "unwinding bound too small: " + "; ".join(
                f["location"] for f in failed if "unwinding assertion" in f["description"])[:400]
        elif any(("not currently supported by Kani" in d or "unsupported" in d.lower() or "is not supported" in d) for d in descs):
            res["status"], res["reason"] = "inconclusive", "unsupported construct reached: " + "; ".join(descs)[:400]
        else:
            res["status"] = "failed"
    else:
        if re.search(r"error(\[E\d+\])?:", text) and "Compiling" in text and "RESULTS:" not in text:
            res["reason"] = "build error"
        elif "Status: ERROR" in text or "out of memory" in text.lower() or "std::bad_alloc" in text:
            res["reason"] = "CBMC error / out of memory"
        else:
            res["reason"] = "no verdict in output"
    res["stubs"] = sorted(set(x.strip() for x in re.findall(r"- Stub: ([^\n]+)", text)))
    return res


def kani_cmd(harness, tdir, playback=False):
    cmd = ["cargo", "kani", "-Z", "stubbing"] + list(getattr(harness, "kani_flags", [])) + ["--exact", "--harness", harness.qualified, "--target-dir", tdir]
    if playback:
        cmd += ["-Z", "concrete-playback", "--concrete-playback=print"]
    return cmd


def run_harness(work, crate, harness, widx, tier):
    tdir = os.path.join(work, "t%d" % widx)
    seed_worker(tdir)
    logfile = os.path.join(work, "logs", harness.name + ".log")
    timeout = harness.timeout_thorough if tier == "thorough" else harness.timeout
    cap = (harness.mem_gb_thorough if tier == "thorough" else harness.mem_gb) * 1024
    rc, killed, wall, peak = run_cmd(kani_cmd(harness, tdir), crate, timeout, logfile, mem_cap_mb=cap)
    text = open(logfile, errors="replace").read()
    res = parse_kani_log(text, harness.allowed_fail)
    res.update(name=harness.name, wall_s=round(wall, 1), rc=rc, expect=harness.expect, tdir=tdir, logfile=logfile, peak_rss_mb=peak)
    if killed:
        res["status"], res["reason"] = "inconclusive", killed
    elif res["status"] == "inconclusive" and not res["reason"]:
        res["reason"] = "exit status %d" % rc
    return res


# ----------------------------------------------------------------------------------------------
# replay of a counterexample on the stock build
# ----------------------------------------------------------------------------------------------
PLAYBACK_RE = re.compile(r"Concrete playback unit test for `([^`]+)`:\n```\n(.*?)```", re.S)
PLAYBACK_FOR_RE = re.compile(r"/// Check for `[^`]*`: (.*?)\n///\n", re.S)


def obtain_playback(work, crate, harness, res):
    logfile = os.path.join(work, "logs", harness.name + ".playback.log")
    # no address-space limit here: building the counterexample trace needs far more virtual memory than the
    # verification run itself (the resident-memory watchdog still applies)
    rc, killed, wall, _ = run_cmd(kani_cmd(harness, res["tdir"], playback=True), crate, max(harness.timeout_thorough, 3600), logfile,
                                  limit=False, mem_cap_mb=45056)
    if killed:
        res["playback_note"] = "playback run stopped: " + killed
    text = open(logfile, errors="replace").read()
    tests = {}
    for m in PLAYBACK_RE.finditer(text):
        src = m.group(2)
        f = PLAYBACK_FOR_RE.search(src)
        desc = norm_desc(re.sub(r"\n/// ?", " ", f.group(1))) if f else ""
        tests.setdefault(desc, src)
    return tests or None


def native_replay(work, harness, test_src, release=False):
    """Compile the harness crate against STOCK dependencies (no profile, stubs not applied) and run the
    solver's assignment through the real code. Returns (reproduced, panic_message, log path)."""
    rcrate = os.path.join(work, "rcrate")
    if not os.path.exists(rcrate):
        make_crate(work, stock=True)
    modfile = os.path.join(rcrate, "src", harness.module + ".rs")
    base = open(os.path.join(work, "crate", "src", harness.module + ".rs")).read()
    # Kani's doc comment repeats the failed check's message; a multi-line message breaks the comment
    code = test_src[test_src.index("#[test]"):] if "#[test]" in test_src else test_src
    open(modfile, "w").write(base + "\n" + code + "\n")
    tname = re.search(r"fn (kani_concrete_playback_\w+)\(", test_src).group(1)
    env = dict(ENV, CARGO_TARGET_DIR=os.path.join(work, "rt"), RUST_BACKTRACE="0")
    logfile = os.path.join(work, "logs", harness.name + (".replay_release.log" if release else ".replay.log"))
    cmd = ["cargo", "kani", "playback", "-Z", "concrete-playback"]
    if release:
        cmd += ["--release"]
    cmd += ["--", tname, "--exact", "--test-threads", "1"]
    cmd = [c for c in cmd if c != "--exact"]  # test names are unique prefixes already
    rc, killed, wall, _ = run_cmd(cmd, rcrate, 1800, logfile, env=env, limit=False)
    text = open(logfile, errors="replace").read()
    ran = re.search(r"test result: (\w+)\. (\d+) passed; (\d+) failed", text)
    if not ran:
        return None, "replay did not run (see %s)" % logfile, logfile
    failed = int(ran.group(3)) > 0
    pm = re.search(r"panicked at ([^\n]*):\n([^\n]*)", text)
    msg = (pm.group(2).strip() + " @ " + pm.group(1).strip()) if pm else ""
    return failed, msg, logfile


# ----------------------------------------------------------------------------------------------
# known findings
# ----------------------------------------------------------------------------------------------
def load_known():
    p = os.path.join(VERIF, "known_findings.json")
    if not os.path.exists(p):
        return {"findings": [], "fixed": []}
    return json.load(open(p))


def match_known(known, prop, harness_name, descriptions):
    """A listed finding suppresses a failure only if property, harness and the failing role agree."""
    out = []
    for d in descriptions:
        hit = None
        for k in known.get("findings", []):
            if k["property"] == prop and k["harness"] == harness_name and k["role"] == d:
                hit = k
        out.append((d, hit))
    return out


# ----------------------------------------------------------------------------------------------
def write_evidence(prop, tier, seed, results, wall, violations, notes, harnesses, samples):
    closed = [r for r in results if r["status"] in ("success", "failed")]
    ev = {
        "property_id": prop,
        "tier": tier,
        "seed": seed,
        "level": "model_checking",
        "wall_s": round(wall, 1),
        "violations": violations,
        "coverage": {
            "evaluations": sum(r["checks_total"] + r["covers_total"] for r in closed),
            "distinct_nontrivial": sum(r["checks_total"] - r["checks_failed"] - r["unreachable"] + r["covers_sat"]
                                       for r in closed if r["status"] == "success"),
            "rule": "one case = one CBMC property (harness assertion, bounds/overflow/pointer check, unwinding "
                    "assertion or cover goal) of a Kani harness over the compiled real code, decided by the SAT solver "
                    "for ALL values of the harness's symbolic inputs within the unwind bound; non-trivial = reported "
                    "reachable (not UNREACHABLE) and discharged in a harness whose verdict was SUCCESSFUL, plus "
                    "satisfied cover goals (vacuity witnesses). This is bounded model checking: no states are enumerated.",
            "obligations": sum(r["checks_total"] for r in closed),
            "discharged": sum(r["checks_total"] - r["checks_failed"] for r in closed),
            # true only where the symbolic inputs span the property's whole finite input space (C13: all 2^32
            # identifiers, C14: all 2^48 byte strings and every configuration) and every harness closed
            "exhaustive": bool(registry.PROPERTY_NOTES.get(prop, {}).get("exhaustive")) and all(r["status"] == "success" for r in results),
            "samples": samples,
            "harnesses": [
                {
                    "name": r["name"], "verdict": r["status"], "expected": r["expect"], "reason": r.get("reason", ""),
                    "cbmc_checks": r["checks_total"], "failed": r["checks_failed"], "unreachable": r["unreachable"],
                    "covers": "%d/%d" % (r["covers_sat"], r["covers_total"]),
                    "verification_s": r["verif_time"], "solver_s": round(r["solver_s"], 2), "wall_s": r["wall_s"],
                    "sat_vars": r["sat_vars"], "sat_clauses": r["sat_clauses"], "stubs": r["stubs"], "peak_rss_mb": r.get("peak_rss_mb"),
                    "unwind": harnesses[r["name"]].unwind, "bounds": harnesses[r["name"]].bounds, "kani_flags": harnesses[r["name"]].kani_flags,
                    "functions": harnesses[r["name"]].functions,
                } for r in results
            ],
            "queries_discharged": len([r for r in results if r["status"] == "success"]),
            "solver_time_s": round(sum(r["solver_s"] for r in results), 2),
            "functions_encoded": sorted({f for r in results for f in harnesses[r["name"]].functions}),
            "bounds": registry.PROPERTY_NOTES.get(prop, {}).get("bounds", ""),
            "outside_bounds": registry.PROPERTY_NOTES.get(prop, {}).get("outside", ""),
            "notes": notes,
            "traces_validated_against_impl": len([n for n in notes if n.startswith("replayed")]),
        },
        "assumptions": PROFILE_ASSUMPTIONS + [profile_validation_note()] + registry.PROPERTY_NOTES.get(prop, {}).get("assumptions", []),
    }
    evdir = os.environ.get("VERIF_EVIDENCE_DIR", os.path.join(VERIF, "evidence"))
    os.makedirs(evdir, exist_ok=True)
    with open(os.path.join(evdir, prop + ".json"), "w") as f:
        json.dump(ev, f, indent=1)


def check_property(prop, tier, only=None, keep=False, jobs=None):
    t_start = time.time()
    seed = int(os.environ.get("VERIF_SEED", "0") or 0)
    hs = [h for h in registry.harnesses_for(prop, tier) if not only or only in h.name]
    if not hs:
        log("no harness registered for %s" % prop)
        return 2
    hmap = {h.name: h for h in hs}
    work = os.path.join(WORK_ROOT, "%s-%s-%d" % (prop, tier, os.getpid()))
    if os.path.exists(work):
        shutil.rmtree(work)
    os.makedirs(os.path.join(work, "logs"))
    rc_final = 2
    try:
        crate = make_crate(work)
        jobs = jobs or int(os.environ.get("VERIF_JOBS", "0") or 0) or min(10, len(hs))
        hs.sort(key=lambda h: -h.cost)
        results = []
        free = list(range(jobs))
        lock = threading.Lock()

        def task(h):
            with lock:
                w = free.pop()
            try:
                r = run_harness(work, crate, h, w, tier)
            finally:
                with lock:
                    free.append(w)
            log("  [%s] %-34s %-12s checks=%d failed=%d covers=%d/%d cbmc=%ss wall=%ss %s" % (
                prop, h.name, r["status"], r["checks_total"], r["checks_failed"], r["covers_sat"], r["covers_total"],
                r["verif_time"], r["wall_s"], r["reason"]))
            return r

        with cf.ThreadPoolExecutor(max_workers=jobs) as ex:
            results = list(ex.map(task, hs))

        known = load_known()
        notes, violations, inconclusive, samples = [], 0, [], []
        out_lines = []
        for r in results:
            h = hmap[r["name"]]
            if h.expect == "fail":
                # vacuity twin: must be refuted by the solver
                if r["status"] == "failed":
                    notes.append("twin %s refuted as required (%s)" % (h.name, r["failed_checks"][0]["description"]))
                else:
                    inconclusive.append("%s: vacuity twin was NOT refuted (%s %s)" % (h.name, r["status"], r["reason"]))
                continue
            if r["status"] == "inconclusive":
                inconclusive.append("%s: %s" % (h.name, r["reason"]))
                continue
            if r["status"] == "success":
                if r["covers_sat"] != r["covers_total"]:
                    inconclusive.append("%s: vacuous - cover goals unsatisfied: %s" % (h.name, r["cover_unsat"]))
                samples.append({"harness": h.name, "inputs": h.bounds, "verdict": "UNSAT (no counterexample) for %d properties" % r["checks_total"]})
                continue
            # failed: counterexample(s) - one per failed CBMC property
            descs = sorted({f["description"] for f in r["failed_checks"]})
            tests = {}
            if h.fallback_inputs:
                # harnesses whose only symbolic input is one byte array carry a few candidate inputs: extracting the
                # solver's own assignment needs a full CBMC trace (tens of GB and up to an hour for the larger
                # programs), so the candidates are tried natively FIRST; one that makes the same assertion fail on the
                # real build confirms the solver-found violation. Only if none does is the trace requested.
                for ci, cand in enumerate(h.fallback_inputs):
                    body = ",\n".join("        vec!%s" % json.dumps(list(v)) for v in cand)
                    src = ("/// candidate input %d for harness `%s::%s` (the solver reported a counterexample; this input confirms it natively)\n#[test]\n"
                           "fn kani_concrete_playback_%s_fallback%d() {\n    let concrete_vals: Vec<Vec<u8>> = vec![\n%s\n    ];\n"
                           "    kani::concrete_playback_run(concrete_vals, %s);\n}\n" % (ci, h.module, h.name, h.name, ci, body, h.name))
                    rep, msg, _ = native_replay(work, h, src)
                    if rep:
                        for d in descs:
                            if d in msg or not re.match(r"^C\d\d:", d):
                                tests.setdefault(d, src)
                        if len(tests) == len(descs):
                            break
                if tests:
                    notes.append("counterexample of %s confirmed natively with a registered candidate input" % h.name)
            if len(tests) < len(descs):
                more = obtain_playback(work, crate, h, r) or {}
                for k, v in more.items():
                    tests.setdefault(k, v)
            if not tests:
                inconclusive.append("%s: counterexample for %s but no concrete playback could be produced (%s)" % (h.name, descs, r.get("playback_note", "no playback test in the output")))
                continue
            rdir = os.path.join(os.environ.get("VERIF_EVIDENCE_DIR", os.path.join(VERIF, "evidence")), "replay")
            os.makedirs(rdir, exist_ok=True)
            first_unknown = None
            for idx, (d, k) in enumerate(match_known(known, prop, h.name, descs)):
                test_src = tests.get(d)
                if test_src is None:
                    cands = [t for dd, t in tests.items() if d in dd or dd in d]
                    test_src = cands[0] if cands else None
                if test_src is None:
                    inconclusive.append("%s: no playback test for failed check %r" % (h.name, d))
                    continue
                rep, msg, rlog = native_replay(work, h, test_src)
                if not rep:
                    inconclusive.append("%s: counterexample for %r does NOT reproduce on the stock build (%s) - "
                                        "harness/stub/profile problem" % (h.name, d, msg))
                    continue
                rep_rel, msg_rel, _ = native_replay(work, h, test_src, release=True)
                notes.append("replayed %s / %s on the stock build: dev=%s release=%s: %s" % (h.name, d, rep, rep_rel, msg))
                rpath = os.path.join(rdir, "%s_%s_%d.rs" % (prop, h.name, idx))
                with open(rpath, "w") as f:
                    f.write("// property=%s harness=%s::%s\n// failed check: %s\n// native panic: %s\n"
                            "// replay: python3 tools/run_check.py --replay %s\n%s\n" % (prop, h.module, h.name, d, msg, rpath, test_src))
                vals = re.findall(r"// (.*)\n\s*vec!\[", test_src)
                samples.append({"harness": h.name, "failed_check": d, "counterexample_values": vals[:24], "native_panic": msg,
                                "reproduced_dev": rep, "reproduced_release": rep_rel})
                if k is not None:
                    out_lines.append("KNOWN-FINDING: property=%s %s [%s / %s]" % (prop, k["what"], h.name, d))
                else:
                    log("  failing check not listed as a known finding: %s / %s" % (h.name, d))
                    first_unknown = first_unknown or rpath
            if first_unknown:
                violations += 1
                out_lines.append("VIOLATION property=%s replay=%s" % (prop, first_unknown))
        for l in out_lines:
            log(l)
        for i in inconclusive:
            log("INCONCLUSIVE: " + i)
        write_evidence(prop, tier, seed, results, time.time() - t_start, violations,
                       notes + ["inconclusive: " + i for i in inconclusive], hmap, samples or [{"note": "no harness closed"}])
        if violations:
            rc_final = 1
        elif inconclusive:
            rc_final = 2
        else:
            rc_final = 0
        log("%s tier=%s: %d harnesses, %d closed, violations=%d, inconclusive=%d, wall=%.0fs -> exit %d" % (
            prop, tier, len(results), len([r for r in results if r["status"] != "inconclusive"]), violations,
            len(inconclusive), time.time() - t_start, rc_final))
    finally:
        if keep or os.environ.get("VERIF_KEEP"):
            log("work directory kept: " + work)
        else:
            shutil.rmtree(work, ignore_errors=True)
    return rc_final


def replay(path):
    src = open(path).read()
    m = re.search(r"// property=(\S+) harness=(\S+)::(\S+)", src)
    prop, module, name = m.groups()
    h = [x for x in registry.all_harnesses() if x.name == name][0]
    work = os.path.join(WORK_ROOT, "replay-%d" % os.getpid())
    os.makedirs(os.path.join(work, "logs"))
    try:
        make_crate(work)
        test_src = src[src.index("///"):] if "///" in src else src[src.index("#[test]"):]
        rep, msg, rlog = native_replay(work, h, test_src)
        log(open(rlog, errors="replace").read()[-3000:])
        log("reproduced=%s %s" % (rep, msg))
        return 1 if rep else 0
    finally:
        shutil.rmtree(work, ignore_errors=True)


def validate_profile(work):
    """Serval-style validation of the trusted base: the repository's own test suite must pass with the
    profile's binrw/binrw_derive substituted (tracing's stand-in only removes logging)."""
    snap = os.path.join(work, "repo")
    if not os.path.exists(snap):
        snapshot_repo(snap)
    prof = os.path.join(VERIF, "profile")
    cmd = ["cargo", "test", "-p", "insim", "-p", "insim_core", "-p", "insim_pth", "-p", "insim_smx", "--no-fail-fast", "--offline",
           "--config", 'patch.crates-io.binrw.path="%s/binrw"' % prof,
           "--config", 'patch.crates-io.binrw_derive.path="%s/binrw_derive"' % prof]
    env = dict(ENV, CARGO_TARGET_DIR=os.path.join(work, "pv_target"))
    logfile = os.path.join(work, "logs", "profile_validation.log")
    rc, killed, wall, _ = run_cmd(cmd, snap, 1800, logfile, env=env, limit=False)
    text = open(logfile, errors="replace").read()
    passed = len(re.findall(r"^test .* \.\.\. ok$", text, re.M))
    failed = len(re.findall(r"^test .* \.\.\. FAILED$", text, re.M))
    res = {"passed": passed, "failed": failed, "exit": rc, "wall_s": round(wall, 1), "at": time.strftime("%Y-%m-%dT%H:%M:%SZ", time.gmtime())}
    os.makedirs(os.path.join(VERIF, ".cache"), exist_ok=True)
    json.dump(res, open(os.path.join(VERIF, ".cache", "profile_validation.json"), "w"))
    log("setup: profile validation: %d passed, %d failed (exit %d)" % (passed, failed, rc))
    return rc == 0 and failed == 0 and passed >= 50


def profile_validation_note():
    p = os.path.join(VERIF, ".cache", "profile_validation.json")
    if not os.path.exists(p):
        return "profile validation (repository suite on the vendored binrw): not run in this sandbox state (run setup_cmd)"
    r = json.load(open(p))
    return "profile validation: repository suite on the vendored binrw/binrw_derive: %d passed, %d failed (%s)" % (r["passed"], r["failed"], r["at"])


def setup():
    """Build the seed target directory (third-party dependencies + Kani's std) once. Purely a cache:
    checks work without it and always recompile the four repository crates from a fresh snapshot."""
    work = os.path.join(WORK_ROOT, "setup-%d" % os.getpid())
    os.makedirs(os.path.join(work, "logs"), exist_ok=True)
    try:
        crate = make_crate(work)
        h = [x for x in registry.all_harnesses() if x.name == "c03_encode_length_kernel"][0]
        tdir = os.path.join(work, "t0")
        rc, to, wall, _ = run_cmd(kani_cmd(h, tdir), crate, 1800, os.path.join(work, "logs", "setup.log"))
        text = open(os.path.join(work, "logs", "setup.log"), errors="replace").read()
        if "VERIFICATION:-" not in text:
            log(text[-3000:])
            log("setup: kani could not build/run the warm-up harness")
            return 2
        if os.path.exists(SEED_DIR):
            shutil.rmtree(SEED_DIR)
        os.makedirs(os.path.dirname(SEED_DIR), exist_ok=True)
        shutil.move(tdir, SEED_DIR)
        log("setup: seed target dir built in %.0fs (%s)" % (wall, SEED_DIR))
        if not validate_profile(work):
            log("setup: PROFILE VALIDATION FAILED - the vendored binrw does not behave like the stock one on the repository's own tests")
            return 2
        return 0
    finally:
        shutil.rmtree(work, ignore_errors=True)


def main():
    ap = argparse.ArgumentParser()
    ap.add_argument("prop", nargs="?")
    ap.add_argument("--tier", default=os.environ.get("VERIF_TIER", "quick"))
    ap.add_argument("--only")
    ap.add_argument("--keep", action="store_true")
    ap.add_argument("--jobs", type=int)
    ap.add_argument("--replay")
    ap.add_argument("--setup", action="store_true")
    a = ap.parse_args()
    if a.setup:
        sys.exit(setup())
    if a.replay:
        sys.exit(replay(a.replay))
    if a.tier not in ("quick", "thorough"):
        a.tier = "quick"
    sys.exit(check_property(a.prop, a.tier, a.only, a.keep, a.jobs))


if __name__ == "__main__":
    main()
