#!/bin/bash
# usage: confirm_seed.sh <PROP> <a|b> <crate dir for the demo, e.g. insim>
# Confirms a sub-agent's change in a scratch worktree: demo passes without it; with it the 58-test suite
# still passes and the demo fails. Prints one summary line.
prop=$1; x=$2; crate=$3
src=${SEED_SRC:-/tmp/seed_${prop}_out}
wt=/tmp/confirm_${prop}_$x
export CARGO_TARGET_DIR=${CONFIRM_TARGET:-/tmp/confirm_target}
git -C /repo worktree remove --force $wt >/dev/null 2>&1
git -C /repo worktree add -q --detach $wt HEAD || exit 3
cd $wt
git apply $src/patch_$x.diff; applied=$?
cargo test --workspace --no-fail-fast --offline > /tmp/confirm_${prop}_$x.suite.log 2>&1
suite_fail=$(grep -E '^test .* FAILED' /tmp/confirm_${prop}_$x.suite.log | wc -l)
suite_pass=$(grep -E '^test .* ok$' /tmp/confirm_${prop}_$x.suite.log | wc -l)
mkdir -p $wt/$crate/tests; cp $src/demo_$x.rs $wt/$crate/tests/demo_$x.rs
cargo test -p $crate --offline --test demo_$x > /tmp/confirm_${prop}_$x.mut.log 2>&1; mut=$?
git apply -R $src/patch_$x.diff
cargo test -p $crate --offline --test demo_$x > /tmp/confirm_${prop}_$x.clean.log 2>&1; clean=$?
cd /; git -C /repo worktree remove --force $wt
echo "CONFIRM $prop $x: applies=$applied suite_pass=$suite_pass suite_fail=$suite_fail demo_with_change_exit=$mut demo_without_change_exit=$clean"
