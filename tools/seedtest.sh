#!/bin/bash
# usage: seedtest.sh <name> <patch.diff> <PROP> [extra run_check args]
# Applies a seeded change in a scratch worktree of /repo (never in /repo itself), runs one check against
# it (VERIF_REPO), prints the verdict and removes the worktree. Evidence goes to a scratch directory.
set -u
name=$1; patch=$2; prop=$3; shift 3
wt=/tmp/mut_$name
git -C /repo worktree remove --force $wt >/dev/null 2>&1
git -C /repo worktree add -q --detach $wt HEAD || exit 3
cp /repo/Cargo.lock $wt/ 2>/dev/null
if ! git -C $wt apply "$patch"; then echo "PATCH DOES NOT APPLY: $patch"; git -C /repo worktree remove --force $wt; exit 3; fi
VERIF_REPO=$wt VERIF_EVIDENCE_DIR=/tmp/mut_ev_$name python3 /verif/tools/run_check.py $prop "$@" > /tmp/mut_$name.$prop.log 2>&1
rc=$?
echo "== $name $prop exit=$rc"; grep -E 'VIOLATION|KNOWN-FINDING|INCONCLUSIVE|failing check' /tmp/mut_$name.$prop.log | cut -c1-300
if [ -d /verif/seeded/$name ]; then
  { echo "check: python3 tools/run_check.py $prop $* (VERIF_REPO = scratch worktree of /repo HEAD + patch.diff)"; echo "exit: $rc";
    grep -E 'VIOLATION|failing check|INCONCLUSIVE' /tmp/mut_$name.$prop.log | sed "s#/tmp/mut_ev_$name/#<scratch evidence>/#" | cut -c1-300; echo; } >> /verif/seeded/$name/check_result.txt
fi
git -C /repo worktree remove --force $wt
exit $rc
