#!/usr/bin/env python3
"""Per-packet-kind harness generator (C01, C02, C03, C04 bodies).

Joins spec/insim_v9.py (the independent layout transcription) with the structs and enums found in
/repo's CURRENT source and emits, per kind K and text configuration T:

  any_K_T()        symbolic value of the real type (every field symbolic within its wire domain)
  eq_K(a, b)       field-wise equality (most payload types do not implement PartialEq)
  ref_K(p, &mut o) reference image [type, body...] from the SPEC (nothing from binrw / the crate's tables)
  c01_K_T          Codec::encode -> K::read_le == p, reader consumes the frame, re-encode identical
  c02_K_T          Codec::encode(p) == reference frame byte for byte ; K::read_le(reference body) == p
  c03_K_T          frame well-formedness of whatever Codec::encode returns for p
  c04_K_body       K::read_le over arbitrary bytes of the nominal size: no panic ; if Ok, encoding it
                   does not abort (the "decoded packets never abort the encoder" clause of C03)

Text configuration T: every text field has a CONCRETE length per harness instance and symbolic ASCII
content: t3 = min(3, width), tf = full width (widths <= 32 only), t0 = empty, t4 = 4 (variable texts).
"""
import os, re, sys, importlib.util

HERE = os.path.dirname(os.path.abspath(__file__))
VERIF = os.path.dirname(HERE)


def load_spec():
    sp = importlib.util.spec_from_file_location("insim_v9", os.path.join(VERIF, "spec", "insim_v9.py"))
    m = importlib.util.module_from_spec(sp)
    sp.loader.exec_module(m)
    return m


class OutOfDate(Exception):
    pass


# ------------------------------------------------------------------------------------------------
# source scanner
# ------------------------------------------------------------------------------------------------
def strip_comments(src):
    src = re.sub(r"/\*.*?\*/", "", src, flags=re.S)
    return re.sub(r"//[^\n]*", "", src)


def all_sources(repo):
    out = {}
    for d in ["insim/src/insim", "insim/src/relay", "insim/src/identifiers", "insim_core/src"]:
        p = os.path.join(repo, d)
        for f in sorted(os.listdir(p)):
            if f.endswith(".rs"):
                out[os.path.join(d, f)] = strip_comments(open(os.path.join(p, f)).read())
    return out


def find_block(src, header_re):
    m = re.search(header_re, src)
    if not m:
        return None
    i = src.index("{", m.end() - 1)
    depth, j = 1, i + 1
    while depth:
        depth += src[j] == "{"
        depth -= src[j] == "}"
        j += 1
    return src[m.start():i], src[i + 1:j - 1]


def struct_fields(sources, name):
    """[(field, type, is_temp)] of `pub struct name { .. }`; temp = #[bw(calc ...)] fields (binrw removes them)."""
    for path, src in sources.items():
        r = find_block(src, r"pub struct %s\s*(<[^>]*>)?\s*(where[^{]*)?\{" % re.escape(name))
        if r is None:
            continue
        body = r[1]
        fields = []
        pending_attrs = ""
        # walk items separated by commas at depth 0
        depth, cur = 0, ""
        items = []
        for c in body:
            if c in "([{<":
                depth += 1
            if c in ")]}>":
                depth -= 1
            if c == "," and depth == 0:
                items.append(cur)
                cur = ""
            else:
                cur += c
        if cur.strip():
            items.append(cur)
        for it in items:
            attrs = " ".join(re.findall(r"#\[(?:[^\[\]]|\[[^\]]*\])*\]", it))
            rest = re.sub(r"#\[(?:[^\[\]]|\[[^\]]*\])*\]", "", it).strip()
            if not rest:
                continue
            m = re.match(r"^(pub(\([^)]*\))?\s+)?([a-z_0-9]+)\s*:\s*(.+)$", rest, flags=re.S)
            if not m:
                raise OutOfDate("cannot classify field %r of %s" % (rest, name))
            fields.append((m.group(3), " ".join(m.group(4).split()), "calc" in attrs, attrs))
        return path, fields
    raise OutOfDate("struct %s not found in the source" % name)


def enum_variants(sources, name):
    for path, src in sources.items():
        r = find_block(src, r"pub enum %s\s*\{" % re.escape(name))
        if r is None:
            continue
        body = re.sub(r"#\[(?:[^\[\]]|\[[^\]]*\])*\]", "", r[1])
        out = []
        for v in body.split(","):
            v = v.strip()
            if not v:
                continue
            m = re.match(r"^([A-Za-z0-9_]+)\s*(=\s*(\S+))?$", v)
            if not m:
                raise OutOfDate("cannot classify variant %r of enum %s" % (v, name))
            out.append((m.group(1), m.group(3)))
        return path, out
    raise OutOfDate("enum %s not found in the source" % name)


def flag_consts(sources, name):
    for path, src in sources.items():
        m = re.search(r"pub struct %s\s*:\s*(u8|u16|u32)\s*\{(.*?)\n\s*\}" % re.escape(name), src, flags=re.S)
        if m:
            return path, m.group(1), re.findall(r"const ([A-Z0-9_]+)\s*=", m.group(2))
    raise OutOfDate("bitflags %s not found in the source" % name)


# ------------------------------------------------------------------------------------------------
# type paths
# ------------------------------------------------------------------------------------------------
TYPE_PATH = {"Wind": "insim_core::wind::Wind", "License": "insim_core::license::License",
             "RelayErrorKind": "insim::relay::RelayErrorKind", "HostInfoFlags": "insim::relay::HostInfoFlags",
             "HostInfo": "insim::relay::HostInfo"}
UNNAMEABLE = {"PlayerHandicapFlags"}  # pub type in a private module, not re-exported


def tp(name, module="insim"):
    if name in TYPE_PATH:
        return TYPE_PATH[name]
    if name in ("RequestId", "PlayerId", "ConnectionId", "ClickId"):
        return "insim::identifiers::" + name
    return "insim::%s::%s" % (module, name)


# ------------------------------------------------------------------------------------------------
# code emission per field descriptor
# ------------------------------------------------------------------------------------------------
class Ctx:
    def __init__(self, spec, sources, textcfg):
        self.spec, self.sources, self.textcfg = spec, sources, textcfg
        self.used_subs = set()

    def textlen(self, width, variable=False):
        t = self.textcfg
        if t.startswith("s") or t == "tc":
            return min(3, width)
        if t == "t0":
            return 0
        if t == "t3":
            return min(3, width)
        if t == "t4":
            return 4 if variable else min(3, width)
        if t == "tf":
            return width if not variable else min(width, 8)
        raise ValueError(t)


def str_len(ctx, d):
    """text length of a fixed-width field under the configuration; `raw` fields (no codepage pass, UTF-8
    validation of the bytes instead, which CBMC finds expensive) are empty except in the tf configuration"""
    if len(d) > 3 and d[3] == "raw" and ctx.textcfg != "tf":
        return 0
    return ctx.textlen(d[2])


INT_W = {"u8": 1, "u16": 2, "u32": 4, "i16": 2, "i32": 4, "f32": 4}


def f_width(ctx, d, count=None):
    k = d[0]
    if k in ("id", "u8", "enum", "bool", "char", "racelaps", "fuel", "nibbles", "u8le", "count"):
        return 1
    if k in INT_W:
        return INT_W[k]
    if k == "u16lt":
        return 2
    if k == "z":
        return d[1]
    if k == "flags":
        return ctx.spec.FLAGS[d[2]][0]
    if k == "dur":
        return INT_W[d[2]]
    if k == "str":
        return d[2]
    if k == "strv":
        n = ctx.textlen(d[2], True)
        return min(d[2], (n + 4) & ~3) if n else 0  # NUL terminated, padded to a multiple of 4
    if k == "veh":
        return 4
    if k == "trk":
        return 6
    if k == "pt_i32":
        return 12
    if k == "sub":
        return sum(f_width(ctx, x) for x in ctx.spec.SUBS[d[2]])
    if k == "arr":
        return d[2] * f_width(ctx, d[3])
    if k == "vec":
        return count * d[3]
    if k == "special":
        return {"GameVersion8": 8, "SmallType": 5, "MsoTextStart": 1, "PlcCars": 4, "CimMode": 3, "Ipv4Unchecked": 4,
                "MalBody": 5, "IpbBody": 5}[d[2]]
    if k == "align4":
        return 0
    raise OutOfDate("unknown descriptor %r" % (d,))


def rust_any(ctx, d, count=None):
    """Rust expression producing a symbolic value of the field's type."""
    k = d[0]
    if k == "id":
        return "%s(kani::any())" % tp(d[2])
    if k in ("u8", "u16", "u32", "i16", "i32", "f32"):
        return "kani::any::<%s>()" % k
    if k == "u16lt":
        return "{ let v: u16 = kani::any(); kani::assume(v < %d); v }" % d[2]
    if k == "u8le":
        return "{ let v: u8 = kani::any(); kani::assume(v <= %d); v }" % d[2]
    if k == "enum":
        path, vs = enum_variants(ctx.sources, d[2])
        specv = [v for v, _ in ctx.spec.ENUMS[d[2]]]
        srcv = [v for v, _ in vs]
        if sorted(specv) != sorted(srcv):
            raise OutOfDate("enum %s: source variants %r != spec variants %r" % (d[2], srcv, specv))
        arms = " ".join("%d => %s::%s," % (i, tp(d[2]), v) for i, v in enumerate(srcv))
        return "{ let i: u8 = kani::any(); kani::assume(i < %d); match i { %s _ => %s::%s } }" % (len(srcv), arms, tp(d[2]), srcv[0])
    if k == "flags":
        if d[2] in UNNAMEABLE:
            return "bitflags::Flags::from_bits_truncate(kani::any())"
        return "%s::from_bits_truncate(kani::any())" % tp(d[2])
    if k == "bool":
        return "kani::any::<bool>()"
    if k == "char":
        return "(kani::any::<u8>() as char)"
    if k == "dur":
        return "dur_menu_%s(%d)" % (d[2], d[3])
    if k == "str":
        if ctx.textcfg == "tc":
            return "String::from(\"%s\")" % "abc"[:str_len(ctx, d)]
        return "ascii_string::<%d>()" % str_len(ctx, d)
    if k == "strv":
        return "ascii_string::<%d>()" % ctx.textlen(d[2], True)
    if k == "veh":
        return "any_vehicle()"
    if k == "trk":
        return "{ let i: usize = kani::any(); kani::assume(i < TRACK_COUNT); track_by_index(i) }"
    if k == "racelaps":
        return "any_racelaps()"
    if k == "fuel":
        return ("{ if kani::any() { let v: u8 = kani::any(); kani::assume(v != 255); %s::Percentage(v) } else { %s::No } }"
                % (tp(d[2]), tp(d[2])))
    if k == "pt_i32":
        return "Point { x: kani::any::<i32>(), y: kani::any::<i32>(), z: kani::any::<i32>() }"
    if k == "sub":
        ctx.used_subs.add(d[2])
        return "any_%s_%s()" % (d[2], ctx.textcfg)
    if k == "arr":
        return "[%s]" % ", ".join(rust_any(ctx, d[3]) for _ in range(d[2])) if d[2] <= 4 else \
            "core::array::from_fn(|_| %s)" % rust_any(ctx, d[3])
    if k == "vec":
        return "{ let mut v = Vec::new(); let mut i = 0; while i < %s { v.push(%s); i += 1; } v }" % (count, rust_any(ctx, d[2]))
    if k == "special":
        return {"GameVersion8": "GameVersion { major: 0.0, minor: 'A', patch: None }",
                "SmallType": "any_smalltype_s(%s)" % (ctx.textcfg[1:] if ctx.textcfg.startswith("s") else "0"), "MsoTextStart": None, "PlcCars": "any_plc_cars()",
                "CimMode": "any_cimmode()", "Ipv4Unchecked": "std::net::Ipv4Addr::from(kani::any::<u32>())"}[d[2]]
    raise OutOfDate("unknown descriptor %r" % (d,))


def rust_eq(ctx, d, a, b):
    k = d[0]
    if k in ("id", "u8", "u16", "u32", "i16", "i32", "bool", "char", "dur", "u16lt", "u8le", "veh", "trk", "flags"):
        return "%s == %s" % (a, b)
    if k == "f32":
        return "%s.to_bits() == %s.to_bits()" % (a, b)
    if k in ("enum", "fuel", "racelaps"):
        if k == "enum":
            return "core::mem::discriminant(&%s) == core::mem::discriminant(&%s)" % (a, b)
        if k == "fuel":
            return "eq_fuel_%s(&%s, &%s)" % (d[2].lower(), a, b)
        return "eq_racelaps(&%s, &%s)" % (a, b)
    if k in ("str", "strv"):
        return "bytes_eq(%s.as_bytes(), %s.as_bytes())" % (a, b)
    if k == "pt_i32":
        return "(%s.x == %s.x && %s.y == %s.y && %s.z == %s.z)" % (a, b, a, b, a, b)
    if k == "sub":
        return "eq_%s(&%s, &%s)" % (d[2], a, b)
    if k == "arr":
        n = d[2]
        if n <= 4:
            return "(" + " && ".join(rust_eq(ctx, d[3], "%s[%d]" % (a, i), "%s[%d]" % (b, i)) for i in range(n)) + ")"
        return "{ let mut ok = true; let mut i = 0; while i < %d { ok = ok && (%s); i += 1; } ok }" % (
            n, rust_eq(ctx, d[3], "%s[i]" % a, "%s[i]" % b))
    if k == "vec":
        return "{ let mut ok = %s.len() == %s.len(); let mut i = 0; while ok && i < %s.len() { ok = ok && (%s); i += 1; } ok }" % (
            a, b, a, rust_eq(ctx, d[2], "%s[i]" % a, "%s[i]" % b))
    if k == "special":
        return {"GameVersion8": "%s == %s" % (a, b), "SmallType": "eq_smalltype(&%s, &%s)" % (a, b), "MsoTextStart": "%s == %s" % (a, b),
                "PlcCars": "%s == %s" % (a, b), "CimMode": "eq_cimmode(&%s, &%s)" % (a, b), "Ipv4Unchecked": "%s == %s" % (a, b)}[d[2]]
    raise OutOfDate("unknown descriptor %r" % (d,))


def rust_ref(ctx, d, v, lines, ind="    "):
    """Append statements that push the SPEC image of value expression `v` into `o`."""
    k = d[0]
    L = lines.append
    if k == "id":
        L(ind + "o.push(%s.0);" % v)
    elif k in ("u8", "u8le"):
        L(ind + "o.push(%s);" % v)
    elif k in ("u16", "u32", "i16", "i32", "u16lt"):
        L(ind + "o.push_all(&%s.to_le_bytes());" % v)
    elif k == "f32":
        L(ind + "o.push_all(&%s.to_bits().to_le_bytes());" % v)
    elif k == "z":
        for _ in range(d[1]):
            L(ind + "o.push(0);")
    elif k == "enum":
        arms = " ".join("%s::%s => %d," % (tp(d[2]), var, num) for var, num in ctx.spec.ENUMS[d[2]])
        L(ind + "o.push(match %s { %s #[allow(unreachable_patterns)] _ => { kani::assume(false); 0 } });" % (v, arms))
    elif k == "flags":
        w = ctx.spec.FLAGS[d[2]][0]
        L(ind + "o.push_all(&(%s.bits() as u%d).to_le_bytes());" % (v, w * 8))
    elif k == "bool":
        L(ind + "o.push(if %s { 1 } else { 0 });" % v)
    elif k == "char":
        L(ind + "o.push(%s as u32 as u8);" % v)
    elif k == "dur":
        L(ind + "o.push_all(&((%s.as_millis() / %d) as %s).to_le_bytes());" % (v, d[3], d[2]))
    elif k == "str":
        n = str_len(ctx, d)
        L(ind + "{ let s = %s.as_bytes(); let mut i = 0; while i < %d { o.push(if i < %d && i < s.len() { s[i] } else { 0 }); i += 1; } }" % (v, d[2], n))
    elif k == "strv":
        n = ctx.textlen(d[2], True)
        w = f_width(ctx, d)
        L(ind + "{ let s = %s.as_bytes(); let mut i = 0; while i < %d { o.push(if i < %d && i < s.len() { s[i] } else { 0 }); i += 1; } }" % (v, w, n))
    elif k == "veh":
        L(ind + "ref_vehicle(&%s, o);" % v)
    elif k == "trk":
        L(ind + "ref_track(&%s, o);" % v)
    elif k == "racelaps":
        L(ind + "o.push(ref_racelaps(&%s));" % v)
    elif k == "fuel":
        L(ind + "o.push(match &%s { %s::Percentage(x) => *x, _ => 255 });" % (v, tp(d[2])))
    elif k == "pt_i32":
        for c in "xyz":
            L(ind + "o.push_all(&%s.%s.to_le_bytes());" % (v, c))
    elif k == "nibbles":
        pass  # handled by the sub emitter (needs two fields)
    elif k == "sub":
        L(ind + "ref_%s(&%s, o);" % (d[2], v))
    elif k == "arr":
        if d[2] <= 4:
            for i in range(d[2]):
                rust_ref(ctx, d[3], "%s[%d]" % (v, i), lines, ind)
        else:
            L(ind + "{ let mut i = 0; while i < %d {" % d[2])
            rust_ref(ctx, d[3], "%s[i]" % v, lines, ind + "    ")
            L(ind + "i += 1; } }")
    elif k == "vec":
        L(ind + "{ let mut i = 0; while i < %s.len() {" % v)
        rust_ref(ctx, d[2], "%s[i]" % v, lines, ind + "    ")
        L(ind + "i += 1; } }")
    elif k == "count":
        pass
    elif k == "align4":
        L(ind + "while o.n % 4 != 0 { o.push(0); }")
    elif k == "special":
        s = d[2]
        if s == "GameVersion8":
            L(ind + "o.push_all(b\"0A\\0\\0\\0\\0\\0\\0\");")
        elif s == "SmallType":
            L(ind + "ref_smalltype(&%s, o);" % v)
        elif s == "MsoTextStart":
            L(ind + "o.push(%s);" % v)
        elif s == "PlcCars":
            L(ind + "ref_plc_cars(&%s, o);" % v)
        elif s == "CimMode":
            L(ind + "ref_cimmode(&%s, o);" % v)
        elif s == "Ipv4Unchecked":
            L(ind + "o.push_all(&u32::from(%s).to_le_bytes());" % v)
    else:
        raise OutOfDate("unknown descriptor %r" % (d,))


def named_fields(descs):
    out = []
    for d in descs:
        if d[0] in ("z", "count", "align4"):
            continue
        if d[0] == "nibbles":
            out.append(d[1])
            if d[2]:
                out.append(d[2])
        elif d[0] == "special" and d[1] is None:
            continue
        else:
            out.append(d[1])
    return out


def check_struct(ctx, ty, descs, extra_private=()):
    path, fields = struct_fields(ctx.sources, ty)
    src_names = sorted(f for f, t, temp, a in fields if not temp)
    spec_names = sorted(list(named_fields(descs)) + list(extra_private))
    if src_names != spec_names:
        raise OutOfDate("struct %s: source fields %r != spec fields %r" % (ty, src_names, spec_names))
    return path


PRELUDE = r'''// @generated by tools/gen_packets.py from the current source of the repository - do not edit
use crate::common::*;
use crate::gen_tables::*;
use binrw::{BinRead, BinWrite};
use insim::net::{Codec, Mode};
use insim::Packet;
use insim_core::game_version::GameVersion;
use insim_core::point::Point;
use insim_core::track::Track;
use insim_core::vehicle::Vehicle;
use std::io::Cursor;
use std::time::Duration;

pub struct Img { pub b: [u8; 272], pub n: usize }
impl Img {
    pub fn new() -> Self { Img { b: [0u8; 272], n: 1 } } // b[0] is the size byte, filled by `finish`
    pub fn push(&mut self, x: u8) { if self.n < 272 { self.b[self.n] = x; } self.n += 1; }
    pub fn push_all(&mut self, xs: &[u8]) { let mut i = 0; while i < xs.len() { self.push(xs[i]); i += 1; } }
    pub fn finish(&mut self, compressed: bool) { self.b[0] = if compressed { (self.n / 4) as u8 } else { self.n as u8 }; }
}

/// Time fields inside packet harnesses take a symbolic choice among boundary wire values: the
/// conversions themselves are decided for EVERY value per instantiation by the C15 harnesses; the
/// 128-bit millisecond arithmetic on a fully symbolic value would dominate every packet harness.
pub fn dur_menu_u16(scale: u64) -> Duration {
    let k: u8 = kani::any();
    kani::assume(k < 5);
    let w: u64 = match k { 0 => 0, 1 => 1, 2 => 999, 3 => 0x1234, _ => 65535 };
    Duration::from_millis(w * scale)
}
pub fn dur_menu_u32(scale: u64) -> Duration {
    let k: u8 = kani::any();
    kani::assume(k < 5);
    let w: u64 = match k { 0 => 0, 1 => 1, 2 => 65536, 3 => 0x12345678, _ => 0xFFFF_FFFF };
    Duration::from_millis(w * scale)
}

pub fn bytes_eq(a: &[u8], b: &[u8]) -> bool {
    if a.len() != b.len() { return false; }
    let mut i = 0;
    while i < a.len() { if a[i] != b[i] { return false; } i += 1; }
    true
}

pub fn any_vehicle() -> Vehicle {
    let b: [u8; 4] = kani::any();
    let mut c = Cursor::new(&b[..]);
    match Vehicle::read_le(&mut c) { Ok(v) => v, Err(e) => { std::mem::forget(e); kani::assume(false); Vehicle::Unknown } }
}
pub fn ref_vehicle(v: &Vehicle, o: &mut Img) {
    match v {
@VEHICLE_ARMS@
        Vehicle::Mod(m) => o.push_all(&m.to_le_bytes()),
        Vehicle::Unknown => o.push_all(&[0, 0, 0, 0]),
        #[allow(unreachable_patterns)]
        _ => kani::assume(false),
    }
}
pub fn ref_track(t: &Track, o: &mut Img) {
    // wire form = the variant's name in upper case, NUL padded to 6 (names come from the enum declaration)
    let code: &[u8] = match t {
@TRACK_ARMS@
        #[allow(unreachable_patterns)]
        _ => { kani::assume(false); b"" }
    };
    let mut i = 0;
    while i < 6 { o.push(if i < code.len() { code[i] } else { 0 }); i += 1; }
}
pub fn any_racelaps() -> insim::insim::RaceLaps {
    use insim::insim::RaceLaps;
    let sel: u8 = kani::any();
    kani::assume(sel < 4);
    let n: usize = kani::any();
    match sel {
        0 => RaceLaps::Practice,
        1 => { kani::assume(n >= 1 && n <= 99); RaceLaps::Laps(n) }
        2 => { kani::assume(n >= 100 && n <= 1000 && n % 10 == 0); RaceLaps::Laps(n) }
        _ => { kani::assume(n >= 1 && n <= 48); RaceLaps::Hours(n) }
    }
}
pub fn ref_racelaps(r: &insim::insim::RaceLaps) -> u8 {
    use insim::insim::RaceLaps;
    // InSim.txt: 0 practice, 1-99 laps, 100-190 = 100..1000 laps in tens, 191-238 = 1..48 hours
    match r {
        RaceLaps::Practice => 0,
        RaceLaps::Laps(n) => if *n < 100 { *n as u8 } else { ((*n - 100) / 10 + 100) as u8 },
        RaceLaps::Hours(h) => (*h + 190) as u8,
        #[allow(unreachable_patterns)]
        _ => { kani::assume(false); 0 }
    }
}
pub fn eq_racelaps(a: &insim::insim::RaceLaps, b: &insim::insim::RaceLaps) -> bool {
    use insim::insim::RaceLaps;
    match (a, b) {
        (RaceLaps::Practice, RaceLaps::Practice) => true,
        (RaceLaps::Laps(x), RaceLaps::Laps(y)) => x == y,
        (RaceLaps::Hours(x), RaceLaps::Hours(y)) => x == y,
        _ => false,
    }
}
pub fn eq_fuel_fuel(a: &insim::insim::Fuel, b: &insim::insim::Fuel) -> bool {
    use insim::insim::Fuel;
    match (a, b) { (Fuel::No, Fuel::No) => true, (Fuel::Percentage(x), Fuel::Percentage(y)) => x == y, _ => false }
}
pub fn eq_fuel_fuel200(a: &insim::insim::Fuel200, b: &insim::insim::Fuel200) -> bool {
    use insim::insim::Fuel200;
    match (a, b) { (Fuel200::No, Fuel200::No) => true, (Fuel200::Percentage(x), Fuel200::Percentage(y)) => x == y, _ => false }
}

// ---- SMALL: (SubT, UVal) by InSim.txt: SSP/SSG/STP/RTP hundredths, NLI ms, VTA vote action, TMS 0/1, ALC car bits, LCS/LCL flag words
/// one SMALL sub-type per configuration (the sub-type byte is pinned in the harness: with a symbolic
/// sub-type the reader's eleven arms - hash-set construction for ALC, 64-bit time arithmetic for the timed
/// ones - are all explored and nothing closes in 600 s). The five timed sub-types are C15's.
pub fn any_smalltype_s(k: u8) -> insim::insim::SmallType {
    use insim::insim::{SmallType, VtnAction, LcsFlags, LclFlags};
    let u: u32 = kani::any();
    match k {
        0 => SmallType::None,
        3 => SmallType::Vta(match u % 4 { 1 => VtnAction::End, 2 => VtnAction::Restart, 3 => VtnAction::Qualify, _ => VtnAction::None }),
        4 => SmallType::Tms(u & 1 == 1),
        8 => SmallType::Alc(insim::insim::PlcAllowedCarsSet::default()),
        9 => SmallType::Lcs(LcsFlags::from_bits_truncate(u)),
        _ => SmallType::Lcl(LclFlags::from_bits_truncate(u)),
    }
}
/// field-wise equality (the derived PartialEq drags the hash-set comparison of the ALC variant into every query)
pub fn eq_smalltype(a: &insim::insim::SmallType, b: &insim::insim::SmallType) -> bool {
    use insim::insim::SmallType::*;
    match (a, b) {
        (None, None) => true,
        (Ssp(x), Ssp(y)) | (Ssg(x), Ssg(y)) | (Stp(x), Stp(y)) | (Rtp(x), Rtp(y)) | (Nli(x), Nli(y)) => x == y,
        (Vta(x), Vta(y)) => core::mem::discriminant(x) == core::mem::discriminant(y),
        (Tms(x), Tms(y)) => x == y,
        (Alc(x), Alc(y)) => x.len() == y.len() && (x.len() == 0 || x.iter().next() == y.iter().next()),
        (Lcs(x), Lcs(y)) => x.bits() == y.bits(),
        (Lcl(x), Lcl(y)) => x.bits() == y.bits(),
        _ => false,
    }
}
pub fn ref_smalltype(s: &insim::insim::SmallType, o: &mut Img) {
    use insim::insim::{SmallType, VtnAction};
    let (t, u): (u8, u32) = match s {
        SmallType::None => (0, 0),
        SmallType::Ssp(d) => (1, (d.as_millis() / 10) as u32),
        SmallType::Ssg(d) => (2, (d.as_millis() / 10) as u32),
        SmallType::Vta(a) => (3, match a { VtnAction::End => 1, VtnAction::Restart => 2, VtnAction::Qualify => 3, _ => 0 }),
        SmallType::Tms(b) => (4, if *b { 1 } else { 0 }),
        SmallType::Stp(d) => (5, (d.as_millis() / 10) as u32),
        SmallType::Rtp(d) => (6, (d.as_millis() / 10) as u32),
        SmallType::Nli(d) => (7, d.as_millis() as u32),
        SmallType::Alc(c) => (8, plc_bits(c)),
        SmallType::Lcs(f) => (9, f.bits()),
        SmallType::Lcl(f) => (10, f.bits()),
        #[allow(unreachable_patterns)]
        _ => { kani::assume(false); (0, 0) }
    };
    o.push(t);
    o.push_all(&u.to_le_bytes());
}

// ---- PLC cars word (InSim.txt: XF GTI 1, XR GT 2, XR GT TURBO 4, ... FORMULA BMW 0x80000)
pub fn plc_bits(c: &insim::insim::PlcAllowedCarsSet) -> u32 {
    let mut w: u32 = 0;
@PLC_BITS@
    w
}
pub fn any_plc_cars() -> insim::insim::PlcAllowedCarsSet {
    // hash sets: empty set only (see DESIGN.md C01 bounds)
    insim::insim::PlcAllowedCarsSet::default()
}
pub fn ref_plc_cars(c: &insim::insim::PlcAllowedCarsSet, o: &mut Img) { o.push_all(&plc_bits(c).to_le_bytes()); }

// ---- CIM: Mode, SubMode, SelType
pub fn any_cimmode() -> insim::insim::CimMode {
    use insim::insim::{CimMode, CimSubModeGarage as G, CimSubModeNormal as N, CimSubModeShiftU as S};
    let sel: u8 = kani::any();
    kani::assume(sel <= 6);
    let s: u8 = kani::any();
    match sel {
        0 => { kani::assume(s <= 4); CimMode::Normal(match s { 0 => N::Normal, 1 => N::WheelTemps, 2 => N::WheelDamage, 3 => N::LiveSettings, _ => N::PitInstructions }) }
        1 => CimMode::Options,
        2 => CimMode::HostOptions,
        3 => { kani::assume(s <= 8); CimMode::Garage(match s { 0 => G::Info, 1 => G::Colours, 2 => G::BrakeTC, 3 => G::Susp, 4 => G::Steer, 5 => G::Drive, 6 => G::Tyres, 7 => G::Aero, _ => G::Pass }) }
        4 => CimMode::CarSelect,
        5 => CimMode::TrackSelect,
        _ => { kani::assume(s <= 2); CimMode::ShiftU { submode: match s { 0 => S::Plain, 1 => S::Buttons, _ => S::Edit }, seltype: kani::any() } }
    }
}
pub fn ref_cimmode(m: &insim::insim::CimMode, o: &mut Img) {
    use insim::insim::{CimMode, CimSubModeGarage as G, CimSubModeNormal as N, CimSubModeShiftU as S};
    let (a, b, c): (u8, u8, u8) = match m {
        CimMode::Normal(s) => (0, match s { N::Normal => 0, N::WheelTemps => 1, N::WheelDamage => 2, N::LiveSettings => 3, N::PitInstructions => 4, #[allow(unreachable_patterns)] _ => { kani::assume(false); 0 } }, 0),
        CimMode::Options => (1, 0, 0),
        CimMode::HostOptions => (2, 0, 0),
        CimMode::Garage(s) => (3, match s { G::Info => 0, G::Colours => 1, G::BrakeTC => 2, G::Susp => 3, G::Steer => 4, G::Drive => 5, G::Tyres => 6, G::Aero => 7, G::Pass => 8, #[allow(unreachable_patterns)] _ => { kani::assume(false); 0 } }, 0),
        CimMode::CarSelect => (4, 0, 0),
        CimMode::TrackSelect => (5, 0, 0),
        CimMode::ShiftU { submode, seltype } => (6, match submode { S::Plain => 0, S::Buttons => 1, S::Edit => 2, #[allow(unreachable_patterns)] _ => { kani::assume(false); 0 } }, *seltype),
        #[allow(unreachable_patterns)]
        _ => { kani::assume(false); (0, 0, 0) }
    };
    o.push(a); o.push(b); o.push(c);
}
pub fn eq_cimmode(a: &insim::insim::CimMode, b: &insim::insim::CimMode) -> bool {
    use insim::insim::CimMode;
    match (a, b) {
        (CimMode::Normal(x), CimMode::Normal(y)) => x == y,
        (CimMode::Options, CimMode::Options) | (CimMode::HostOptions, CimMode::HostOptions)
        | (CimMode::CarSelect, CimMode::CarSelect) | (CimMode::TrackSelect, CimMode::TrackSelect) => true,
        (CimMode::Garage(x), CimMode::Garage(y)) => x == y,
        (CimMode::ShiftU { submode: s1, seltype: t1 }, CimMode::ShiftU { submode: s2, seltype: t2 }) => s1 == s2 && t1 == t2,
        _ => false,
    }
}
'''


def emit_sub(ctx, name, out):
    descs = ctx.spec.SUBS[name]
    check_struct(ctx, name, descs)
    T = tp(name, "relay" if name == "HostInfo" else "insim")
    # any
    inits = []
    for d in descs:
        if d[0] == "z":
            continue
        if d[0] == "nibbles":
            inits.append("%s: { let v: u8 = kani::any(); kani::assume(v <= 15); v }" % d[1])
            if d[2]:
                inits.append("%s: { let v: u8 = kani::any(); kani::assume(v <= 15); v }" % d[2])
        else:
            inits.append("%s: %s" % (d[1], rust_any(ctx, d)))
    out.append("pub fn any_%s_%s() -> %s { %s { %s } }\n" % (name, ctx.textcfg, T, T, ", ".join(inits)))


def emit_sub_shared(ctx, name, out):
    descs = ctx.spec.SUBS[name]
    T = tp(name, "relay" if name == "HostInfo" else "insim")
    eqs = []
    for d in descs:
        if d[0] == "z":
            continue
        if d[0] == "nibbles":
            eqs.append("a.%s == b.%s" % (d[1], d[1]))
            if d[2]:
                eqs.append("a.%s == b.%s" % (d[2], d[2]))
        else:
            eqs.append(rust_eq(ctx, d, "a.%s" % d[1], "b.%s" % d[1]))
    out.append("pub fn eq_%s(a: &%s, b: &%s) -> bool { %s }\n" % (name, T, T, " && ".join("(%s)" % e for e in eqs)))
    lines = []
    for d in descs:
        if d[0] == "nibbles":
            lo = ("v.%s" % d[2]) if d[2] else "0"
            lines.append("    o.push((v.%s << 4) | (%s & 0x0f));" % (d[1], lo))
        else:
            rust_ref(ctx, d, "v.%s" % d[1] if d[0] != "z" else None, lines)
    out.append("pub fn ref_%s(v: &%s, o: &mut Img) {\n%s\n}\n" % (name, T, "\n".join(lines)))


SUB_ORDER = ["NodeLapInfo", "CompCar", "CarContact", "ObjectInfo", "ConInfo", "HcpCarHandicap", "PlayerHandicap", "HostInfo"]

# per kind: which text configurations and element counts to instantiate, and tier
TEXT_KINDS_WIDE = {"Mst", "Msx", "Msl", "Btt", "Rip"}  # widths > 32: t3/t0 only (tf does not close, DESIGN C11)


def kind_configs(variant, descs):
    if variant in ("Mal", "Ipb"):
        return [("t3", 0), ("t3", 1)]
    if variant == "Small":
        # the five timed sub-types ("sa") are decided value by value, layout included, by C15 (c15_small_*_wire /
        # c15_small_*_encode); together in one packet harness they do not close in 600 s
        return [("s%d" % k, None) for k in (0, 3, 4, 9, 10)]  # ALC (8): out of memory even for the empty set; its bit table is c02_plc_car_bit_*
    has_text = any(d[0] in ("str", "strv") for d in descs) or "HostInfo" in str(descs)
    has_var = any(d[0] == "strv" for d in descs)
    vec = [d for d in descs if d[0] == "vec"]
    texts = ["t3"]
    if has_var:
        # no length-4 configuration: a variable text whose length is a multiple of 4 gets no terminator
        # (known finding, owned by C11: c11_mtc_len4 / c11_var64_len4), which C02 would only re-report
        texts = ["t3", "t0"]
    elif has_text:
        maxw = max([d[2] for d in descs if d[0] == "str"] + [32 if "HostInfo" in str(descs) else 0])
        texts = ["t3"] + (["tf"] if maxw <= 24 else []) + (["t0"] if variant in ("Cpr", "Isi", "Mst") else [])
    # (a configuration with concrete, pinned text was tried for Res/Rip/Npl/relay host lists: it does not close either -
    # the text content is not what makes these queries dear)
    counts = [None]
    if vec:
        counts = [1, 2, 0]
    cfgs = []
    for t in texts:
        for c in counts:
            if t != "t3" and c not in (None, 1):
                continue
            cfgs.append((t, c))
    return cfgs


QUICK_KINDS = {"Tiny", "Small", "Con", "Cim", "Isi", "Sta", "Npl", "Lap", "Nlp", "Axm", "Plc", "Mso", "Iii", "Cpr", "Obh", "RelayHos"}


def generate(repo):
    spec = load_spec()
    sources = all_sources(repo)
    out = []
    index = []
    # packet.rs cross-check
    psrc = strip_comments(open(os.path.join(repo, "insim/src/packet.rs")).read())
    src_kinds = re.findall(r"#\[brw\(magic = (\d+)u8\)\]\s*([A-Za-z0-9_]+)\(([A-Za-z0-9_]+)\)", psrc)
    src_set = sorted((v, t) for m, v, t in src_kinds)
    spec_set = sorted((v, t) for v, m, t, mod, f in spec.KINDS)
    if src_set != spec_set:
        raise OutOfDate("packet kinds differ: only in source %r ; only in spec %r" % (
            sorted(set(src_set) - set(spec_set)), sorted(set(spec_set) - set(src_set))))

    base = Ctx(spec, sources, "t3")
    veh_arms = "\n".join("        Vehicle::%s => o.push_all(b\"%s\\0\")," % (v, n) for v, n in spec.VEHICLES)
    import gen_harness as gh
    trk = gh.enum_variants(open(os.path.join(repo, "insim_core/src/track.rs")).read(), "Track")
    trk_arms = "\n".join("        Track::%s => b\"%s\"," % (v, v.upper()) for v, _, _ in trk)
    plc = "\n".join("    if c.contains(&Vehicle::%s) { w |= 1u32 << %d; }" % (v, b) for v, b in spec.PLC_CAR_BITS.items())
    out.append(PRELUDE.replace("@VEHICLE_ARMS@", veh_arms).replace("@TRACK_ARMS@", trk_arms).replace("@PLC_BITS@", plc))

    # flag constant tables: one concrete harness asserting every CONST sits on the spec'd bit
    tbl = []
    for fname, (w, bits) in sorted(spec.FLAGS.items()):
        path, ity, consts = flag_consts(sources, fname)
        if int(ity[1:]) // 8 != w:
            tbl.append('    assert!(false, "C02:%s is %d bytes wide in the specification, %s in the source");' % (fname, w, ity))
        if bits is None or fname in UNNAMEABLE:
            continue
        atoms = [c for c in consts]
        if sorted(atoms) != sorted(c for c, _ in bits):
            raise OutOfDate("flags %s: source constants %r != spec %r" % (fname, atoms, [c for c, _ in bits]))
        for c, b in bits:
            tbl.append('    assert!(%s::%s.bits() as u64 == 1u64 << %d, "C02:%s::%s is bit %d");' % (tp(fname), c, b, fname, c, b))
    out.append("#[kani::proof]\nfn c02_flag_bit_tables() {\n%s\n}\n" % "\n".join(tbl))
    index.append(dict(name="c02_flag_bit_tables", prop="C02", tier="quick", unwind=None, cost=5,
                      bounds="every named flag constant of every bit-flag type against the specification's bit number (concrete)",
                      functions=["bitflags constants of insim::insim::* / insim::relay::HostInfoFlags"]))
    # enum discriminant tables
    etbl = []
    for ename, vs in sorted(spec.ENUMS.items()):
        for var, num in vs:
            etbl.append('    assert!(%s::%s as u8 == %d, "C02:%s::%s is %d");' % (tp(ename), var, num, ename, var, num))
    out.append("#[kani::proof]\nfn c02_enum_number_tables() {\n%s\n}\n" % "\n".join(etbl))
    index.append(dict(name="c02_enum_number_tables", prop="C02", tier="quick", unwind=None, cost=5,
                      bounds="every variant of every one-byte enumeration against the specification's number (concrete)",
                      functions=["repr(u8) enums of insim::insim::*, insim::relay::RelayErrorKind, insim_core::{wind,license}"]))

    # PLC / SMALL_ALC car bits: one concrete harness per bit (hash-set insertion costs ~2 min under CBMC)
    for vname, bit in sorted(spec.PLC_CAR_BITS.items(), key=lambda kv: kv[1]):
        out.append("#[kani::proof]\n#[kani::unwind(40)]\n#[kani::stub(alloc::fmt::format, stub_format)]\n"
                   "#[kani::stub(std::hash::RandomState::new, stub_random_state)]\nfn c02_plc_car_bit_%d() {\n"
                   "    let s = insim::insim::PlcAllowedCarsSet::from_bits_truncate(1u32 << %d);\n"
                   "    assert!(s.len() == 1, \"C02:one car bit yields one car\");\n"
                   "    assert!(s.contains(&Vehicle::%s), \"C02:car bit %d is %s\");\n"
                   "    assert!(s.bits() == 1u32 << %d, \"C02:car set re-encodes to the same bit\");\n"
                   "    std::mem::forget(s);\n}\n" % (bit, bit, vname, bit, vname, bit))
        index.append(dict(name="c02_plc_car_bit_%d" % bit, prop="C02", tier="quick" if bit in (0, 19) else "thorough", unwind=40, cost=120,
                          bounds="PLC/ALC cars word with only bit %d set (concrete table entry)" % bit,
                          functions=["insim::insim::PlcAllowedCarsSet::from_bits_truncate", "PlcAllowedCarsSet::bits", "PlcAllowedCarsSet::contains"]))
    for s in SUB_ORDER:
        emit_sub_shared(base, s, out)
    emitted_sub_cfg = set()

    for variant, magic, ty, module, descs in spec.KINDS:
        T = tp(ty, module)
        if variant in ("Mal", "Ipb"):
            extra = ["ucid", "allowed_mods"] if variant == "Mal" else ["banips"]
            check_struct(base, ty, descs, extra)
        else:
            check_struct(base, ty, descs)
        low = variant.lower()
        # eq_K
        eqs = []
        for d in descs:
            if d[0] in ("z", "count", "align4") or (d[0] == "special" and d[1] is None):
                continue
            eqs.append(rust_eq(base, d, "a.%s" % d[1], "b.%s" % d[1]))
        if variant == "Mal":
            eqs.append("a.ucid == b.ucid && a.len() == b.len() && a.iter().next() == b.iter().next()")
        if variant == "Ipb":
            eqs.append("a.len() == b.len() && a.iter().next() == b.iter().next()")
        out.append("pub fn eq_%s(a: &%s, b: &%s) -> bool { %s }\n" % (low, T, T, " && ".join("(%s)" % e for e in eqs)))

        for (tc, cnt) in kind_configs(variant, descs):
            ctx = Ctx(spec, sources, tc)
            sfx = tc + ("" if cnt is None else "_n%d" % cnt)
            tag = "%s_%s" % (low, sfx)
            # any
            inits, pre = [], []
            for d in descs:
                if d[0] in ("z", "count", "align4"):
                    continue
                if d[0] == "special" and d[2] == "MsoTextStart":
                    n = ctx.textlen(128, True)
                    inits.append("textstart: { let t: u8 = kani::any(); kani::assume(t as usize <= %d); t }" % n)
                    continue
                if d[0] == "special" and d[1] is None:
                    continue
                inits.append("%s: %s" % (d[1], rust_any(ctx, d, cnt)))
            for sname in sorted(ctx.used_subs):
                if (sname, tc) not in emitted_sub_cfg:
                    emitted_sub_cfg.add((sname, tc))
                    emit_sub(Ctx(spec, sources, tc), sname, out)
            if variant == "Mal":
                ins = "let _ = m.insert(Vehicle::Mod(kani::any()));" if cnt == 1 else ""
                anyfn = "{ let mut m = %s::default(); m.reqi = insim::identifiers::RequestId(kani::any()); m.ucid = insim::identifiers::ConnectionId(kani::any()); %s m }" % (T, ins)
            elif variant == "Ipb":
                ins = "let _ = m.insert(std::net::Ipv4Addr::from(kani::any::<u32>()));" if cnt == 1 else ""
                anyfn = "{ let mut m = %s::default(); m.reqi = insim::identifiers::RequestId(kani::any()); %s m }" % (T, ins)
            else:
                anyfn = "%s { %s }" % (T, ", ".join(inits))
            out.append("pub fn any_%s() -> %s { %s }\n" % (tag, T, anyfn))
            # ref
            lines = ["    o.push(%d);" % magic]
            for d in descs:
                if d[0] == "count":
                    lines.append("    o.push(p.%s.len() as u8);" % d[1])
                elif d[0] == "special" and d[2] == "MalBody":
                    lines += ["    o.push(p.len() as u8); // NumM", "    o.push(p.ucid.0);", "    o.push(0); o.push(0); o.push(0);",
                              "    if let Some(Vehicle::Mod(id)) = p.iter().next() { o.push_all(&id.to_le_bytes()); }"]
                elif d[0] == "special" and d[2] == "IpbBody":
                    lines += ["    o.push(p.len() as u8); // NumB", "    o.push(0); o.push(0); o.push(0); o.push(0);",
                              "    if let Some(ip) = p.iter().next() { o.push_all(&u32::from(*ip).to_le_bytes()); }"]
                else:
                    rust_ref(ctx, d, ("p.%s" % d[1]) if d[0] not in ("z", "align4") else None, lines)
            out.append("pub fn ref_%s(p: &%s, o: &mut Img) {\n%s\n}\n" % (tag, T, "\n".join(lines)))
            body_w = sum(f_width(ctx, d, cnt) for d in descs if not (d[0] == "special" and d[1] is None)) + (
                6 if variant in ("Mal", "Ipb") else 0) - (0)
            if variant == "Mal":
                body_w = 1 + 1 + 1 + 3 + 4 * cnt
            if variant == "Ipb":
                body_w = 1 + 1 + 4 + 4 * cnt
            frame_w = body_w + 2
            if any(d[0] == "align4" for d in descs):
                frame_w = (frame_w + 3) & ~3
            textmax = max([(str_len(ctx, d) if d[0] == "str" else ctx.textlen(d[2], True)) for d in descs if d[0] in ("str", "strv")] + [0])
            if "HostInfo" in str(descs):
                textmax = max(textmax, ctx.textlen(32))
            unwind = max(20, textmax + 3, max([d[2] for d in descs if d[0] == "arr"] + [0]) + 2,
                         max([d[2] for d in descs if d[0] == "str"] + [0]) + 2,
                         max([f_width(ctx, d) for d in descs if d[0] == "strv"] + [0]) + 2, (cnt or 0) + 3,
                         35 if "HostInfo" in str(descs) else 0, frame_w + 2)
            stubs = ("#[kani::stub(alloc::fmt::format, stub_format)]\n"
                     "#[kani::stub(insim_core::string::codepages::to_lossy_string, stub_to_lossy_string)]\n"
                     "#[kani::stub(insim_core::string::codepages::to_lossy_bytes, stub_to_lossy_bytes)]\n"
                     "#[kani::stub(std::hash::RandomState::new, stub_random_state)]\n")
            if variant == "Mso":
                # IS_MSO's reader assembles the message with format!("{name}{msg}"): formatting is on the data path here
                stubs = stubs.replace("#[kani::stub(alloc::fmt::format, stub_format)]\n", "")
            hdr = "#[kani::proof]\n#[kani::unwind(%d)]\n%s" % (unwind, stubs)
            W = frame_w - 1  # bytes written by Packet::write_le: type + body (+ alignment)
            BUF = W + 12
            wr = ("    let mut out = [0xAAu8; %d];\n"
                  "    let pk = Packet::%s(p.clone());\n"
                  "    let mut w = Cursor::new(&mut out[..]);\n"
                  "    let r = pk.write_le(&mut w);\n"
                  "    let n = w.position() as usize;\n" % (BUF, variant))
            cntpos = None
            off = 0
            for d in descs:
                if d[0] == "count":
                    cntpos = off
                off += f_width(ctx, d, cnt) if d[0] != "vec" else 0
            if variant in ("Mal", "Ipb"):
                cntpos = 1
            # the element count travels through the byte buffer; CBMC does not propagate it as a constant
            # through the cursor's memcpy, and a counted read with a symbolic count never closes. So: ASSERT the
            # count byte has the expected value (decided by the solver), then store that same constant back.
            pin_out = ("    assert!(out[%d] == %d, \"C01:count byte equals the number of elements\");\n    out[%d] = %d;\n"
                       % (cntpos + 1, cnt, cntpos + 1, cnt)) if cntpos is not None else ""
            extra_pins = []  # (body offset, value): same idea for the SMALL sub-type byte (and the empty ALC word)
            if variant == "Small":
                k = int(tc[1:])
                extra_pins = [(1, k)] + ([(2, 0), (3, 0), (4, 0), (5, 0)] if k == 8 else [])
            # raw text fields that are empty in this configuration, and the (empty) PLC car word: the reader's
            # UTF-8 validation / twenty conditional hash-set insertions over bytes CBMC regards as symbolic
            bo = 0
            for d in descs:
                wd = f_width(ctx, d, cnt) if d[0] != "vec" else (cnt or 0) * d[3]
                if d[0] == "str" and len(d) > 3 and d[3] == "raw" and str_len(ctx, d) == 0:
                    extra_pins += [(bo + j, 0) for j in range(wd)]
                if d[0] == "special" and d[2] == "PlcCars":
                    extra_pins += [(bo + j, 0) for j in range(4)]
                if tc == "tc" and d[0] == "str":
                    txt = "abc"[:str_len(ctx, d)]
                    extra_pins += [(bo + j, ord(txt[j]) if j < len(txt) else 0) for j in range(wd)]
                if tc == "tc" and d[0] == "vec" and "HostInfo" in str(d):
                    for e in range(cnt or 0):
                        extra_pins += [(bo + 40 * e + j, ord("abc"[j]) if j < 3 else 0) for j in range(32)]
                bo += wd
            for (bo, val) in extra_pins:
                pin_out += "    assert!(out[%d] == %d, \"C01:pinned byte (sub-type / empty raw text / empty car word) has its expected value\");\n    out[%d] = %d;\n" % (bo + 1, val, bo + 1, val)
            pin_ref = ("    assert!(ob[%d] == %d, \"C02:reference count byte (harness self-check)\");\n    ob[%d] = %d;\n"
                       % (cntpos + 2, cnt, cntpos + 2, cnt)) if cntpos is not None else ""
            for (bo, val) in extra_pins:
                pin_ref += "    assert!(ob[%d] == %d, \"C02:pinned reference byte (harness self-check)\");\n    ob[%d] = %d;\n" % (bo + 2, val, bo + 2, val)
            # ---- C01
            out.append(hdr + "fn c01_%s() {\n    let p = any_%s();\n%s"
                       "    let wrote = r.is_ok();\n    std::mem::forget(r);\n"
                       "    assert!(wrote, \"C01:representable packet refused by the encoder\");\n"
                       "    // the slice handed to the reader must have a CONCRETE length for the query to close: the expected\n"
                       "    // frame size is known from the layout, the solver checks the writer produced exactly that many bytes\n"
                       "    assert!(n == %d, \"C01:encoder wrote a different number of bytes than the packet's layout has\");\n"
                       "@PIN_OUT@"
                       "    let mut c = Cursor::new(&out[1..%d]);\n"
                       "    let rq = <%s>::read_le(&mut c);\n"
                       "    let decoded = rq.is_ok();\n"
                       "    assert!(decoded, \"C01:encoder output does not decode\");\n"
                       "    let q = match rq { Ok(q) => q, Err(e) => { std::mem::forget(e); kani::assume(false); unreachable!() } };\n"
                       "    assert!(eq_%s(&p, &q), \"C01:decoded packet differs from the encoded one\");\n"
                       "    assert!(c.position() as usize + 1 == n, \"C01:decoder does not consume the whole frame\");\n"
                       "    kani::cover!(true, \"round trip completed\");\n"
                       "    std::mem::forget(q); std::mem::forget(pk); std::mem::forget(p);\n}\n"
                       % (tag, tag, wr, W, W, T, low))
            out[-1] = out[-1].replace("@PIN_OUT@", pin_out)
            # ---- C02
            out.append(hdr + "fn c02_%s() {\n    let p = any_%s();\n"
                       "    let mut o = Img::new();\n    ref_%s(&p, &mut o);\n"
                       "    assert!(o.n == %d, \"C02:reference frame size (harness self-check)\");\n%s"
                       "    let wrote = r.is_ok();\n    std::mem::forget(r);\n"
                       "    assert!(wrote, \"C02:representable packet refused by the encoder\");\n"
                       "    assert!(n + 1 == o.n, \"C02:frame length differs from the specification\");\n"
                       "    let i: usize = kani::any(); kani::assume(i >= 1 && i < o.n && i <= n);\n"
                       "    assert!(out[i - 1] == o.b[i], \"C02:encoded byte differs from the specification layout\");\n"
                       "    kani::cover!(true, \"typed -> bytes compared\");\n"
                       "    // copy the reference frame into a plain array (concrete structure for CBMC), then as in C01\n"
                       "    let mut ob = [0u8; %d];\n"
                       "    { let mut k = 0; while k < %d { ob[k] = o.b[k]; k += 1; } }\n"
                       "@PIN_REF@"
                       "    let mut c = Cursor::new(&ob[2..%d]);\n"
                       "    let rq = <%s>::read_le(&mut c);\n"
                       "    let decoded = rq.is_ok();\n"
                       "    assert!(decoded, \"C02:specification-conformant frame rejected\");\n"
                       "    let q = match rq { Ok(q) => q, Err(e) => { std::mem::forget(e); kani::assume(false); unreachable!() } };\n"
                       "    assert!(eq_%s(&p, &q), \"C02:specification-conformant frame decodes to different values\");\n"
                       "    kani::cover!(true, \"bytes -> typed compared\");\n"
                       "    std::mem::forget(q); std::mem::forget(pk); std::mem::forget(p);\n}\n"
                       % (tag, tag, tag, frame_w, wr, frame_w, frame_w, frame_w, T, low))
            out[-1] = out[-1].replace("@PIN_REF@", pin_ref)
            if variant in ("Mso", "Res", "Hcp", "Rip", "Ver") and tc == "t3":
                # typed -> bytes half alone, for kinds whose READER side does not close (MSO: format! on the data
                # path; RES/HCP/RIP: size; VER: float parsing)
                out.append(hdr + "fn c02_%s_w() {\n    let p = any_%s();\n"
                           "    let mut o = Img::new();\n    ref_%s(&p, &mut o);\n"
                           "    assert!(o.n == %d, \"C02:reference frame size (harness self-check)\");\n%s"
                           "    let wrote = r.is_ok();\n    std::mem::forget(r);\n"
                           "    assert!(wrote, \"C02:representable packet refused by the encoder\");\n"
                           "    assert!(n + 1 == o.n, \"C02:frame length differs from the specification\");\n"
                           "    let i: usize = kani::any(); kani::assume(i >= 1 && i < o.n && i <= n);\n"
                           "    assert!(out[i - 1] == o.b[i], \"C02:encoded byte differs from the specification layout\");\n"
                           "    kani::cover!(true, \"typed -> bytes compared\");\n"
                           "    std::mem::forget(pk); std::mem::forget(p);\n}\n" % (tag, tag, tag, frame_w, wr))
                index.append(dict(name="c02_%s_w" % tag, prop="C02", tier="thorough", unwind=unwind, cost=60 + 4 * frame_w,
                                  bounds="%s: typed -> bytes direction only (the reader side of this kind does not close); every field symbolic, text length min(3,width)" % variant,
                                  functions=["<insim::Packet as BinWrite>::write_options", "<%s as BinWrite>::write_options" % T]))
            # ---- C03
            cntpos = None
            off = 0
            for d in descs:
                if d[0] == "count":
                    cntpos = off
                off += f_width(ctx, d, cnt) if d[0] != "vec" else 0
            out.append(hdr + "fn c03_%s() {\n    let p = any_%s();\n%s"
                       "    if r.is_ok() {\n"
                       "        // the frame is these bytes behind one size byte (Codec::encode; the size byte itself is the kernel's, c03_encode_length_*)\n"
                       "        assert!((n + 1) %% 4 == 0, \"C03:frame length is not a multiple of 4\");\n"
                       "        assert!(n + 1 >= 4 && n + 1 <= 1020, \"C03:frame length outside the protocol's range\");\n"
                       "        assert!(out[0] == %d, \"C03:type byte\");\n%s"
                       "        kani::cover!(true, \"frame produced\");\n"
                       "    }\n    std::mem::forget(r); std::mem::forget(pk); std::mem::forget(p);\n}\n"
                       % (tag, tag, wr, magic,
                          ("        assert!(out[%d] as usize == %d, \"C03:count byte equals the number of elements\");\n" % (cntpos + 1, cnt))
                          if cntpos is not None else ""))
            tier = "quick" if (variant in QUICK_KINDS and (tc == "t3" or tc in ("s0", "s4", "s9")) and cnt in (None, 1)) else "thorough"
            needs_c03 = any(d[0] in ("vec", "strv", "align4") for d in descs)
            for prop in ("c01", "c02", "c03"):
                if prop == "c03" and not needs_c03:
                    continue
                if prop == "c03" and tier == "quick" and variant not in ("Nlp", "Axm", "Iii", "Mso", "Tiny", "RelayHos", "Con"):
                    t2 = "thorough"
                else:
                    t2 = tier
                index.append(dict(name="%s_%s" % (prop, tag), prop=prop.upper(), tier=t2, unwind=unwind, cost=60 + 4 * frame_w,
                                  bounds="%s: every field symbolic in its wire domain; text length %s (content symbolic ASCII); %s"
                                         % (variant, {"t0": "0", "t3": "min(3,width)", "t4": "4", "tf": "full width", "tc": "min(3,width), CONTENT concrete (\"abc\")", }.get(tc, "n/a (SMALL sub-type %s)" % tc[1:]),
                                            "element count %s" % cnt if cnt is not None else "no counted part"),
                                  functions=["<insim::Packet as BinWrite>::write_options", "<%s as BinWrite>::write_options" % T, "<%s as BinRead>::read_options" % T]))
        if variant == "Mal":
            out.append("#[kani::proof]\n#[kani::unwind(20)]\n"
                       "#[kani::stub(alloc::fmt::format, stub_format)]\n"
                       "#[kani::stub(std::hash::RandomState::new, stub_random_state)]\n"
                       "fn c03_mal_n1_encodable() {\n"
                       "    // the MAL writer aborts (unreachable!) on any element that is not a mod id: whatever the reader\n"
                       "    // accepts must therefore be a mod, with exactly the id on the wire\n"
                       "    let mut img: [u8; 10] = kani::any();\n    img[1] = 1;\n"
                       "    let mut c = Cursor::new(&img[..]);\n"
                       "    let r = <insim::insim::Mal>::read_le(&mut c);\n"
                       "    if let Ok(p) = &r {\n"
                       "        assert!(p.len() == 1, \"C03:decoded MAL element count\");\n"
                       "        let id = u32::from_le_bytes([img[6], img[7], img[8], img[9]]);\n"
                       "        assert!(matches!(p.iter().next(), Some(Vehicle::Mod(m)) if *m == id), \"C03:decoded MAL holds a non-mod vehicle (the encoder aborts on it)\");\n"
                       "        kani::cover!(true, \"MAL with one id decoded\");\n"
                       "    }\n    std::mem::forget(r);\n}\n")
            index.append(dict(name="c03_mal_n1_encodable", prop="C03", tier="quick", unwind=20, cost=80,
                              fallback_inputs=[[[0]] * 10, [[0], [1], [0], [0], [0], [0], [88], [70], [71], [0]], [[255]] * 10],
                              bounds="IS_MAL body with NumM = 1 and every other byte symbolic (10 bytes)",
                              functions=["<insim::insim::Mal as BinRead>::read_options", "indexmap::IndexSet::insert"]))
        if variant == "Mso":
            # IS_MSO body with a CONCRETE TextStart per harness (the name is a counted read: a symbolic count never
            # closes): 0, inside the message, exactly the message length, beyond the frame
            for ts in (0, 2, 8, 9, 200):
                out.append("#[kani::proof]\n#[kani::unwind(20)]\n"
                           "#[kani::stub(alloc::fmt::format, stub_format)]\n"
                           "#[kani::stub(insim_core::string::codepages::to_lossy_string, stub_to_lossy_string)]\n"
                           "fn c04_mso_ts%d_body() {\n"
                           "    let mut img: [u8; 14] = kani::any();\n    img[5] = %d;\n"
                           "    let mut c = Cursor::new(&img[..]);\n"
                           "    let r = <insim::insim::Mso>::read_le(&mut c);\n"
                           "    %s\n"
                           "    assert!(c.position() as usize <= 14, \"C04:reader went beyond the frame\");\n"
                           "    std::mem::forget(r);\n}\n" % (ts, ts,
                              'kani::cover!(r.is_ok(), "accepted");' if ts <= 8 else 'kani::cover!(r.is_err(), "rejected: TextStart beyond the message");'))
                index.append(dict(name="c04_mso_ts%d_body" % ts, prop="C04", tier="quick" if ts in (2, 200) else "thorough", unwind=20, cost=60,
                                  fallback_inputs=[[[0]] * 14, [[255]] * 14, [[0x41]] * 14],
                                  bounds="IS_MSO: arbitrary 14-byte body (8 message bytes) with TextStart = %d" % ts,
                                  functions=["<insim::insim::Mso as BinRead>::read_options"]))
        vecs = [d for d in descs if d[0] == "vec"]
        if vecs and variant != "RelayHos":
            # element count beyond the small symbolic configurations: 61 Default elements (one past AXM's protocol
            # maximum, above NLP/MCI/PLH's): the count byte must equal the number of elements actually written
            d0 = vecs[0]
            big = 61
            cpos = 0
            for d in descs:
                if d[0] == "count":
                    break
                cpos += f_width(base, d, 0) if d[0] != "vec" else 0
            bw = sum(f_width(base, d, big) for d in descs) + 1
            if any(d[0] == "align4" for d in descs):
                bw = ((bw + 1 + 3) & ~3) - 1
            out.append("#[kani::proof]\n#[kani::unwind(%d)]\n"
                       "#[kani::stub(alloc::fmt::format, stub_format)]\n"
                       "fn c03_%s_count61() {\n"
                       "    let mut p = <%s>::default();\n    p.reqi = insim::identifiers::RequestId(kani::any());\n"
                       "    p.%s = vec![Default::default(); %d];\n"
                       "    let mut out = [0xAAu8; %d];\n"
                       "    let pk = Packet::%s(p);\n"
                       "    let mut w = Cursor::new(&mut out[..]);\n"
                       "    let r = pk.write_le(&mut w);\n"
                       "    let n = w.position() as usize;\n"
                       "    if r.is_ok() {\n"
                       "        assert!(out[%d] as usize == %d, \"C03:count byte equals the number of elements\");\n"
                       "        assert!(n == %d, \"C03:frame holds exactly the announced elements\");\n"
                       "        assert!((n + 1) %% 4 == 0, \"C03:frame length is not a multiple of 4\");\n"
                       "        kani::cover!(true, \"frame produced\");\n"
                       "    }\n    std::mem::forget(r); std::mem::forget(pk);\n}\n"
                       % (big + 4, low, T, d0[1], big, bw + 16, variant, cpos + 1, big, bw))
            index.append(dict(name="c03_%s_count61" % low, prop="C03", tier="thorough", unwind=big + 4, cost=200,
                              bounds="%s with 61 Default elements (count beyond the symbolic configurations), request id symbolic" % variant,
                              functions=["<insim::Packet as BinWrite>::write_options", "<%s as BinWrite>::write_options" % T]))
        # ---- Codec::encode wiring for this kind: Default payload (concrete), both modes (symbolic)
        cw = max([d[2] for d in descs if d[0] == "str"] + [d[2] for d in descs if d[0] == "arr"] + [45]) + 3
        out.append("#[kani::proof]\n#[kani::unwind(%d)]\n"
                   "#[kani::stub(alloc::fmt::format, stub_format)]\n"
                   "#[kani::stub(insim_core::string::codepages::to_lossy_bytes, stub_to_lossy_bytes)]\n"
                   "#[kani::stub(std::hash::RandomState::new, stub_random_state)]\n"
                   "fn c03_%s_codec() {\n"
                   "    let compressed: bool = kani::any();\n"
                   "    let codec = Codec::new(if compressed { Mode::Compressed } else { Mode::Uncompressed });\n"
                   "    let mut p = <%s>::default();\n    p.reqi = insim::identifiers::RequestId(kani::any());\n"
                   "    let pk = Packet::%s(p);\n"
                   "    let mut out = [0xAAu8; 272];\n"
                   "    let mut w = Cursor::new(&mut out[..]);\n"
                   "    let r0 = pk.write_le(&mut w);\n"
                   "    let n = w.position() as usize;\n"
                   "    assert!(r0.is_ok(), \"C03:default packet refused\");\n"
                   "    std::mem::forget(r0);\n"
                   "    let r = codec.encode(&pk);\n"
                   "    match &r { Ok(b) => {\n"
                   "        assert!(b.len() == n + 1, \"C03:Codec::encode adds exactly the size byte\");\n"
                   "        assert!(b.len() %% 4 == 0 && b.len() <= if compressed { 1020 } else { 255 }, \"C03:frame length is not legal for the mode\");\n"
                   "        assert!(b[0] as usize == if compressed { b.len() / 4 } else { b.len() }, \"C03:size byte does not describe the frame\");\n"
                   "        assert!(b[1] == %d, \"C03:type byte\");\n"
                   "        let i: usize = kani::any(); kani::assume(i < n); assert!(b[i + 1] == out[i], \"C03:Codec::encode body differs from the packet writer\");\n"
                   "        kani::cover!(true, \"frame produced\"); }\n"
                   "      Err(_) => assert!(false, \"C03:default packet refused by Codec::encode\") }\n"
                   "    std::mem::forget(r); std::mem::forget(pk);\n}\n" % (cw, low, T, variant, magic))
        index.append(dict(name="c03_%s_codec" % low, prop="C03", tier="quick" if variant in ("Tiny", "Isi", "Nlp", "Axm") else "thorough", unwind=cw, cost=40,
                          bounds="%s: Default payload with symbolic request id, both size modes, through Codec::encode" % variant,
                          functions=["insim::net::Codec::encode", "insim::net::Mode::encode_length", "<insim::Packet as BinWrite>::write_options"],
                          allowed_fail=r"Mode::encode_length\.assertion|in function insim::net::mode::Mode::encode_length|in function insim::net::Mode::encode_length"))
        # ---- C04 body / C03 re-encode from arbitrary bytes (sizes: nominal for t3, counts concrete 0..2)
        for cnt in ([0, 1] if variant in ("Mal", "Ipb") else [None] if not any(d[0] == "vec" for d in descs) else [0, 1, 2]):
            ctx = Ctx(spec, sources, "t4")
            if variant == "Mal":
                w = 6 + 4 * cnt
            elif variant == "Ipb":
                w = 6 + 4 * cnt
            else:
                w = sum(f_width(ctx, d, cnt) for d in descs)
            if variant in ("Mso", "Iii", "Mtc", "Acr", "Btn"):
                w = sum(f_width(ctx, d, cnt) for d in descs if d[0] != "strv") + 8
            if any(d[0] == "align4" for d in descs):
                w = ((w + 2 + 3) & ~3) - 2
            tag = "%s%s" % (low, "" if cnt is None else "_n%d" % cnt)
            cntpos = None
            off = 0
            for d in descs:
                if d[0] == "count":
                    cntpos = off
                off += f_width(ctx, d, cnt) if d[0] != "vec" else 0
            fix = ""
            if cntpos is not None:
                fix = "    img[%d] = %d;\n" % (cntpos, cnt)
            if variant in ("Mal", "Ipb"):
                fix = "    img[1] = %d;\n" % cnt
            unwind = max(12, w + 3)
            stubs = ("#[kani::stub(alloc::fmt::format, stub_format)]\n"
                     "#[kani::stub(insim_core::string::codepages::to_lossy_string, stub_to_lossy_string)]\n"
                     "#[kani::stub(insim_core::string::codepages::to_lossy_bytes, stub_to_lossy_bytes)]\n"
                     "#[kani::stub(std::hash::RandomState::new, stub_random_state)]\n")
            if variant == "Mso":
                stubs = stubs.replace("#[kani::stub(alloc::fmt::format, stub_format)]\n", "")
            out.append("#[kani::proof]\n#[kani::unwind(%d)]\n%sfn c04_%s_body() {\n"
                       "    let mut img: [u8; %d] = kani::any();\n%s"
                       "    let mut c = Cursor::new(&img[..]);\n"
                       "    let r = <%s>::read_le(&mut c);\n"
                       "    kani::cover!(r.is_ok(), \"some image of this size is accepted\");\n"
                       "    assert!(c.position() as usize <= %d, \"C04:reader went beyond the frame\");\n"
                       "    std::mem::forget(r);\n}\n" % (unwind, stubs, tag, w, fix, T, w))
            out.append("#[kani::proof]\n#[kani::unwind(%d)]\n%sfn c03_%s_reencode() {\n"
                       "    let mut img: [u8; %d] = kani::any();\n%s"
                       "    let mut c = Cursor::new(&img[..]);\n"
                       "    let r = <%s>::read_le(&mut c);\n"
                       "    if let Ok(p) = r {\n"
                       "        let mut out = [0xAAu8; %d];\n"
                       "        let pk = Packet::%s(p);\n"
                       "        let mut w = Cursor::new(&mut out[..]);\n"
                       "        let e = pk.write_le(&mut w);\n"
                       "        let n = w.position() as usize;\n"
                       "        kani::cover!(e.is_ok(), \"a decoded packet was re-encoded\");\n"
                       "        if e.is_ok() { assert!((n + 1) %% 4 == 0, \"C03:re-encoded decoded packet is not a well-formed frame\"); }\n"
                       "        std::mem::forget(e); std::mem::forget(pk);\n"
                       "    } else { std::mem::forget(r); }\n}\n" % (unwind, stubs, tag, w, fix, T, w + 16, variant))
            tier = "quick" if (variant in QUICK_KINDS and cnt in (None, 1)) else "thorough"
            fb = [[[0]] * w, [[255]] * w, [[0x41]] * w, [[(j + 1) & 255] for j in range(w)]]
            index.append(dict(name="c04_%s_body" % tag, prop="C04", tier=tier, unwind=unwind, cost=40 + 3 * w, fallback_inputs=fb,
                              bounds="%s: arbitrary %d-byte body%s" % (variant, w, "" if cnt is None else ", count byte = %d" % cnt),
                              functions=["<%s as BinRead>::read_options" % T]))
            has_text_any = any(d[0] in ("str", "strv") for d in descs) or "HostInfo" in str(descs)
            if not has_text_any:
              index.append(dict(name="c03_%s_reencode" % tag, prop="C03", tier=tier, fallback_inputs=fb, unwind=unwind, cost=60 + 4 * w,
                              bounds="%s: arbitrary %d-byte body%s, decoded value re-encoded in both modes" % (variant, w, "" if cnt is None else ", count byte = %d" % cnt),
                              functions=["<%s as BinRead>::read_options" % T, "<insim::Packet as BinWrite>::write_options"]))
    return "".join(out), index


_CACHE = {}


def harness_index(H):
    repo = os.environ.get("VERIF_REPO", "/repo")
    if repo not in _CACHE:
        try:
            _CACHE[repo] = generate(repo)[1]
        except OutOfDate as e:
            print("spec/harness out of date: %s" % e, file=sys.stderr)
            raise SystemExit(2)
    return [H(e["name"], "gen_packets", e["prop"], tier=e["tier"], unwind=e["unwind"], cost=e["cost"], bounds=e["bounds"],
              functions=e["functions"], timeout=900, allowed_fail=e.get("allowed_fail"), fallback_inputs=e.get("fallback_inputs", ()))
            for e in _CACHE[repo]]


if __name__ == "__main__":
    src, idx = generate(sys.argv[1] if len(sys.argv) > 1 else "/repo")
    sys.stdout.write(src)
    sys.stderr.write("%d harnesses\n" % len(idx))
