#!/usr/bin/env python3
"""Writes /verif/MANIFEST.json from the tables below (kept next to the registry so they stay in step)."""
import json, os
HERE = os.path.dirname(os.path.abspath(__file__))
VERIF = os.path.dirname(HERE)

TECH = "bounded symbolic execution of the compiled Rust (Kani 0.68 -> CBMC 6.11), verdict by SAT solver (CaDiCaL) over all symbolic inputs within the unwind bound; counterexamples replayed natively on the stock build"

CLAIMS = {
    "C01": ('Per packet kind (generated from the source + an independent spec table), every configuration that closes (closing_set.json): every field symbolic in its wire domain, the real <Packet as BinWrite> writer then the real <K as BinRead> reader return a field-wise equal value and consume the whole frame.',
            'Writer entered through Packet::write_options on a slice cursor (Codec::encode over a symbolic payload does not close; its size byte is decided for every length by the C03 kernel and per kind on Default payloads). The re-encode clause follows from field-wise equality of ALL fields + determinism of the writer and is not separately queried. Text of concrete length (3 / full width <= 24 / 0) with symbolic ASCII content, counts 0..2, time fields from a boundary menu, SMALL one sub-type per query (timed sub-types: C15), hash sets empty, Ver/Res/Hcp/Mso(read side)/relay host lists with elements outside. Codepage conversion stubbed (ASCII).'),
    "C02": ('Same symbolic values, differential against reference frames built from spec/insim_v9.py (offsets, widths, enumerant numbers, bit positions, spare bytes zero): writer output == reference byte for byte, and the reader on the reference frame recovers the values; concrete tables of every enum number, flag bit and PLC car bit.',
            'Oracle is my transcription of InSim.txt v9 / relay from memory (no copy in the sandbox); PSE_ pit-work bit numbers, time units in prose, IP byte order and PlayerHandicapFlags constants not claimed; bounds as C01 (for MSO/RIP/VER only the typed->bytes direction closes).'),
    "C03": ('Mode::encode_length for EVERY usize length and both modes (legal lengths get the specified size byte, every illegal length is refused by a panic, never given a size byte); per kind: frame multiple of 4 in range, type byte, count byte == elements (counts 0..2 symbolic elements; 61 Default elements for AXM/NLP), Codec::encode(Default payload) == size byte + writer output in both modes, decoded packets never abort the writer (kinds without text; MAL: whatever the reader accepts is a mod id).',
            'Other counts and text lengths outside; decode-then-encode for text kinds does not close (decoded text has a symbolic length).'),
    "C04": ('Mode::decode_length for every first byte x buffer length 0..=1100 x mode; per kind the real reader over arbitrary bytes of the nominal body size never panics and never reads beyond the frame (count / TextStart bytes concrete per query); Codec::decode on an unknown-type frame + symbolic tail: error, exactly the frame removed, tail intact.',
            "Codec::decode on frames of a KNOWN type with symbolic bytes or a symbolic buffer length does not close: the success path's frame removal and the decode-side type dispatch are not decided. Body readers of Isi/Small/Plc/Ver outside (raw UTF-8 validation, hash-set construction, float parsing)."),
    "C06": ('blocking Framed::write twice over a transport accepting any k in 1..=len bytes per call: both frames arrive complete, contiguous, in call order, one encode per packet.',
            "Codec::encode is replaced by a frame model (4- and 8-byte frames of symbolic content) in this harness - over the real encoder's Bytes the query exceeds 16 GB; -Z restrict-vtable is required. Blocking connection only: tokio write path, UDP and WebSocket adaptors not claimed."),
    "C07": ("Packet::maybe_pong / Tiny::is_keepalive for every TINY (256 request ids x all sub-types) and every other kind.",
            "Decision function only: that Framed::read writes the reply once, before returning, and nothing else, is NOT decided (read loop does not close)."),
    "C08": ("WRITE half of the blocking UDP adaptor: UdpStream::write issues exactly one send with exactly the frame's bytes (4- and 12-byte frames of symbolic content); two packets through blocking Framed over UdpStream leave as two datagrams, each exactly its frame.",
            "Write half and blocking adaptor only. The READ half (datagrams delivered intact, tail kept across reads, long sessions) does not close even with concrete datagram and read sizes; the tokio adaptor needs a reactor. UdpSocket::send stubbed (records the datagram, reports the full length); Codec::encode replaced by a frame model; -Z restrict-vtable."),
    "C09": ("Packet::maybe_verify_version for all 256 versions and every other kind; VERSION == 9.",
            "Decision function only: application of the gate inside Framed::read / Builder::verify_version wiring is NOT decided."),
    "C11": ("Fixed-width and align-4 text writers, MST/MSX/MSL/MTC frames and the fixed-width reader, for text lengths enumerated around every field width (concrete per harness) with symbolic ASCII content; reader over every [u8; N] image.",
            "Text LENGTH is concrete per harness (a symbolic length does not close); non-ASCII text (encoded length != character count) outside; known finding: missing NUL terminators, see known_findings.json."),
    "C13": ("All 2^32 four-byte car identifiers in one query: decode rule, error rule, mod rule, byte-exact re-encode; all built-ins: printed name == wire name.",
            "alloc::fmt::format stubbed (error text only)."),
    "C14": ("All 2^48 six-byte values (decode => identical re-encode, accessors agree with the bytes) and all configurations by symbolic index (wire form == code NUL padded, decodes to itself, reverse/open suffix rule, open => no distance, one licence per area).",
            "Variant list generated from the enum declaration; alloc::fmt::format stubbed."),
    "C15": ("RaceLaps: all 256 bytes, every usize lap and hour count; duration reader/writer at the four instantiations in use: every wire value round-trips, any Duration up to Duration::MAX is floor-scaled or refused; SMALL timed sub-types likewise.",
            "32-bit SMALL wire round trips per sub-type may be tiered thorough (128-bit arithmetic)."),
    "C16": ("Ord/PartialOrd/PartialEq of GameVersion over three symbolic values: reflexive, antisymmetric, transitive, consistent with ==, ordered by (number, letter, revision-or-0).",
            "Order/equality half only; NaN and -0.0 excluded (not producible by the parser - argument from reading). Parser/printer half not applicable (dec2flt / float formatting)."),
    "C17": ('PTH: images with node count 0/1/2 and all other bytes symbolic parse and re-write byte-identically; wrong magic, fixed truncation points and hostile count fields (-1, i32::MIN, i32::MAX, 10^6) are rejected without panic. SMX: writer output for a value with one object/point/triangle/checkpoint equals the documented layout.',
            'Counts and truncation points are concrete per harness (symbolic ones do not close); the SMX READER does not close and is outside; files and allocation size outside.'),
    "C18": ("Symbolic builder program (flag setters in any order with overrides, wholesale replacement, prefix/interval/reqi present or absent, transport chosen twice) -> Builder::isi field by field; blocking handshake over a recording transport sends exactly the 44-byte ISI in the configured mode.",
            "Handshake harness uses a concrete configuration apart from the request id (Codec::encode over a symbolic ISI does not close); real sockets outside."),
}

NOT_APPLICABLE = {
    "C05": "blocking Framed::read over a nondeterministic transport gives no result in 25 min even for one concrete 4-byte frame (BytesMut + 73-variant Packet::read under CBMC); the tokio half needs the runtime's time driver",
    "C10": "encoding_rs (inline asm, CPUID multiversioning, AVX2) is untranslatable by Kani; with it stubbed the residual marker scanner needs > 18 GB for 3 input bytes",
    "C12": "unescape(escape(s)) over two ASCII characters needs 27.8 GB in the SAT stage; the property's interactions need three",
    "C19": "needs tokio's time driver/reactor; Kani models neither runtime nor concurrency",
    "C20": "tokio-tungstenite over a concrete tokio TcpStream: protocol engine and sockets are not encodable",
}

def main():
    checks = []
    for pid in sorted(CLAIMS):
        text, note = CLAIMS[pid]
        checks.append({
            "property_id": pid,
            "quick_cmd": "python3 tools/run_check.py %s --tier quick" % pid,
            "thorough_cmd": "python3 tools/run_check.py %s --tier thorough" % pid,
            "evidence_file": "/verif/evidence/%s.json" % pid,
            "replay_cmd_template": "python3 tools/run_check.py --replay {path}",
            "engine": "kani-cbmc",
            "level_claimed": {"category": "model_checking", "text": text, "design_ref": "DESIGN.md section 4, " + pid},
            "level_note": note,
            "technique": TECH,
        })
    m = {
        "version": 1,
        "setup_cmd": "python3 tools/run_check.py --setup",
        "hooks": {
            "guard": "theangryangel_insim_rs_verif",
            "enable": "no source hooks: harnesses live in /verif/kani (external crate, public API only); dependency substitutions are [patch.crates-io] entries of that crate",
            "baseline_off_cmd": "cd /repo && cargo test --workspace --no-fail-fast --offline",
            "source_commits": [],
            "add_only": True,
        },
        "engines": [{"name": "kani-cbmc", "path": "/verif/tools/run_check.py", "serves_properties": sorted(CLAIMS),
                     "kind_free_text": "Kani proof harnesses (/verif/kani + modules generated from /repo's source on every run) -> CBMC bounded model checking -> SAT"}],
        "checks": checks,
        "not_applicable": [{"property_id": k, "reason": v} for k, v in sorted(NOT_APPLICABLE.items())],
        "notes": "Exit 2 from a check means inconclusive (timeout, memory, unwinding bound, non-reproducing counterexample); it is never reported as success or as a violation.",
    }
    json.dump(m, open(os.path.join(VERIF, "MANIFEST.json"), "w"), indent=1)

if __name__ == "__main__":
    main()
