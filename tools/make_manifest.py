#!/usr/bin/env python3
"""Writes /verif/MANIFEST.json from the tables below (kept next to the registry so they stay in step)."""
import json, os
HERE = os.path.dirname(os.path.abspath(__file__))
VERIF = os.path.dirname(HERE)

TECH = "bounded symbolic execution of the compiled Rust (Kani 0.68 -> CBMC 6.11), verdict by SAT solver (CaDiCaL) over all symbolic inputs within the unwind bound; counterexamples replayed natively on the stock build"

CLAIMS = {
    "C03": ("Length kernel for every usize length and both modes (legal lengths get the specified size byte, every illegal length is refused by a panic and never given a size byte).",
            "Mode::encode_length only so far; per-kind encode harnesses are added by the generator. Profile substitutions and stubs as listed in the evidence file."),
    "C04": ("Mode::decode_length for every first byte x buffer length 0..=1100 x mode: need-more-data iff incomplete, frame length = announced, 4 <= n <= limit, framing error only for impossible lengths.",
            "Codec::decode itself (split_to/advance, type dispatch) never closes under CBMC and is NOT decided; see DESIGN.md C04."),
    "C13": ("All 2^32 four-byte car identifiers decided in one query: decode rule, error rule, mod rule, byte-exact re-encode; all built-in variants: printed name == wire name.",
            "alloc::fmt::format stubbed (error text only)."),
}

NOT_APPLICABLE = {}

def main():
    checks = []
    for pid in sorted(CLAIMS):
        text, note = CLAIMS[pid]
        checks.append({
            "property_id": pid,
            "quick_cmd": "python3 tools/run_check.py %s --tier quick" % pid,
            "thorough_cmd": "python3 tools/run_check.py %s --tier thorough" % pid,
            "evidence_file": "/verif/evidence/%s.json" % pid,
            "replay_cmd_template": "python3 tools/run_check.py --replay {path}",
            "engine": "kani-cbmc",
            "level_claimed": {"category": "model_checking", "text": text, "design_ref": "DESIGN.md section 4, " + pid},
            "level_note": note,
            "technique": TECH,
        })
    m = {
        "version": 1,
        "setup_cmd": "python3 tools/run_check.py --setup",
        "hooks": {
            "guard": "theangryangel_insim_rs_verif",
            "enable": "no source hooks: harnesses live in /verif/kani (external crate, public API only); dependency substitutions are [patch.crates-io] entries of that crate",
            "baseline_off_cmd": "cd /repo && cargo test --workspace --no-fail-fast --offline",
            "source_commits": [],
            "add_only": True,
        },
        "engines": [{"name": "kani-cbmc", "path": "/verif/tools/run_check.py", "serves_properties": sorted(CLAIMS),
                     "kind_free_text": "Kani proof harnesses (/verif/kani + modules generated from /repo's source on every run) -> CBMC bounded model checking -> SAT"}],
        "checks": checks,
        "not_applicable": [{"property_id": k, "reason": v} for k, v in sorted(NOT_APPLICABLE.items())],
        "notes": "Exit 2 from a check means inconclusive (timeout, memory, unwinding bound, non-reproducing counterexample); it is never reported as success or as a violation.",
    }
    json.dump(m, open(os.path.join(VERIF, "MANIFEST.json"), "w"), indent=1)

if __name__ == "__main__":
    main()
