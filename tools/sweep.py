#!/usr/bin/env python3
"""Measure which generated harnesses close on the current tree (time / memory), and record it in
closing_set.json. This is calibration of the machinery, not evidence: harnesses that do not close
within the caps are not registered for any property and are listed in DESIGN.md as outside.

    sweep.py [--jobs N] [--cap SECONDS] [--mem GB] [--filter REGEX] [--retry-inconclusive]
"""
import argparse, concurrent.futures as cf, json, os, re, shutil, sys, threading, time
HERE = os.path.dirname(os.path.abspath(__file__))
sys.path.insert(0, HERE)
import registry, run_check as rc

OUT = os.path.join(rc.VERIF, "closing_set.json")


def main():
    ap = argparse.ArgumentParser()
    ap.add_argument("--jobs", type=int, default=5)
    ap.add_argument("--cap", type=int, default=600)
    ap.add_argument("--mem", type=int, default=9)
    ap.add_argument("--filter", default=".")
    ap.add_argument("--retry-inconclusive", action="store_true")
    ap.add_argument("--redo", action="store_true")
    ap.add_argument("--retry-reason", default=None, help="retry inconclusive harnesses whose reason matches this regex")
    a = ap.parse_args()
    known = json.load(open(OUT)) if os.path.exists(OUT) else {}
    hs = [h for h in registry.all_harnesses(include_unclosed=True) if h.module == "gen_packets" and re.search(a.filter, h.name)]
    todo = [h for h in hs if a.redo or h.name not in known or (a.retry_inconclusive and known[h.name]["status"] == "inconclusive")
            or (a.retry_reason and known[h.name]["status"] == "inconclusive" and re.search(a.retry_reason, known[h.name]["reason"]))]
    print("%d generated harnesses, %d to run" % (len(hs), len(todo)), flush=True)
    work = os.path.join(rc.WORK_ROOT, "sweep-%d" % os.getpid())
    os.makedirs(os.path.join(work, "logs"))
    crate = rc.make_crate(work)
    free = list(range(a.jobs))
    lock = threading.Lock()
    todo.sort(key=lambda h: h.cost)

    def task(h):
        h.timeout, h.mem_gb = a.cap, a.mem
        with lock:
            w = free.pop()
        try:
            r = rc.run_harness(work, crate, h, w, "quick")
        finally:
            with lock:
                free.append(w)
        rec = {"status": r["status"], "reason": r["reason"][:200], "cbmc_s": r["verif_time"], "wall_s": r["wall_s"],
               "rss_mb": r.get("peak_rss_mb"), "checks": r["checks_total"], "failed": [f["description"] for f in r["failed_checks"]][:5],
               "covers": "%d/%d" % (r["covers_sat"], r["covers_total"])}
        with lock:
            import fcntl
            with open(OUT + ".lock", "w") as lk:
                fcntl.flock(lk, fcntl.LOCK_EX)
                cur = json.load(open(OUT)) if os.path.exists(OUT) else {}
                cur[h.name] = rec
                tmp = OUT + ".tmp%d" % os.getpid()
                json.dump(cur, open(tmp, "w"), indent=0, sort_keys=True)
                os.replace(tmp, OUT)
        print("%-34s %-12s cbmc=%s wall=%s rss=%s %s %s" % (h.name, rec["status"], rec["cbmc_s"], rec["wall_s"], rec["rss_mb"], rec["failed"], rec["reason"][:80]), flush=True)

    try:
        with cf.ThreadPoolExecutor(max_workers=a.jobs) as ex:
            list(ex.map(task, todo))
    finally:
        shutil.rmtree(work, ignore_errors=True)


if __name__ == "__main__":
    main()
