#!/usr/bin/env python3
"""Compile seeded/RESULTS.md from seeded/*/meta.json and seeded/*/check_result.txt (written by tools/seedtest.sh)."""
import json, os, re
ROOT = os.path.join(os.path.dirname(os.path.dirname(os.path.abspath(__file__))), "seeded")
rows = []
for d in sorted(os.listdir(ROOT)):
    p = os.path.join(ROOT, d)
    if not os.path.isdir(p):
        continue
    meta = json.load(open(os.path.join(p, "meta.json")))
    res = open(os.path.join(p, "check_result.txt")).read() if os.path.exists(os.path.join(p, "check_result.txt")) else ""
    runs = [b for b in res.split("\n\n") if b.strip()]
    verdict, detail = "not run", ""
    for b in runs:  # the last run wins
        m = re.search(r"exit: (\S+)", b)
        checks = re.findall(r"failing check not listed as a known finding: (\S+) / (.*)", b)
        cmd = re.search(r"check: (.*)", b)
        if m and m.group(1) == "1" and "VIOLATION" in b:
            verdict = "CAUGHT"
            detail = "; ".join("%s (%s)" % (h, msg[:70]) for h, msg in checks[:2]) or "VIOLATION reported"
        elif m and m.group(1) == "0":
            verdict, detail = "missed", "check passed: " + (cmd.group(1) if cmd else "")
        elif m:
            verdict, detail = "inconclusive (exit %s)" % m.group(1), (re.findall(r"INCONCLUSIVE: (.*)", b) or [""])[0][:160]
    rows.append((d, meta["property"], meta["needs_to_manifest"], verdict, detail))
with open(os.path.join(ROOT, "RESULTS.md"), "w") as f:
    f.write("# Seeded changes and the checks' verdicts\n\nEach change was applied in a scratch worktree of /repo (never in /repo), the named check was run against it "
            "(`tools/seedtest.sh`), and the worktree removed. CAUGHT = exit 1 with a VIOLATION line after the counterexample "
            "reproduced natively on the stock build.\n\n| seed | property | needs | verdict | by |\n|---|---|---|---|---|\n")
    for r in rows:
        f.write("| %s | %s | %s | %s | %s |\n" % r)
print("%d seeds: %d caught" % (len(rows), len([r for r in rows if r[3] == "CAUGHT"])))
