"""Registry of Kani harnesses: which property each serves, in which tier it runs, its bounds.

Hand-written harnesses are listed here; the per-packet-kind harnesses are appended from
gen_packets.harness_index() (the same function that emits their Rust source).
"""
import os, sys

HERE = os.path.dirname(os.path.abspath(__file__))
sys.path.insert(0, HERE)


class H:
    def __init__(self, name, module, prop, tier="quick", expect="pass", unwind=None, timeout=600,
                 timeout_thorough=3600, cost=30, bounds="", functions=(), allowed_fail=None,
                 require_refusal=False):
        self.name, self.module, self.prop, self.tier, self.expect = name, module, prop, tier, expect
        self.unwind, self.timeout, self.timeout_thorough, self.cost = unwind, timeout, timeout_thorough, cost
        self.bounds, self.functions = bounds, list(functions)
        # regex over "<cbmc check name> | <location>": failures matching it are the code's own loud
        # refusals (panics inside the named function), which the property allows
        self.allowed_fail, self.require_refusal = allowed_fail, require_refusal

    @property
    def qualified(self):
        return "%s::%s" % (self.module, self.name)


HAND = [
    # ---- C13 -----------------------------------------------------------------------------------
    H("c13_vehicle_wire", "c13", "C13", unwind=8, cost=20,
      bounds="b: [u8;4] = any() - all 2^32 wire values",
      functions=["<insim_core::vehicle::Vehicle as BinRead>::read_options", "<Vehicle as BinWrite>::write_options",
                 "Vehicle::is_mod", "Vehicle::is_builtin"]),
    H("c13_builtin_names", "c13", "C13", unwind=8, cost=40,
      bounds="i = any() < number of built-in variants (list generated from the enum declaration)",
      functions=["<Vehicle as Display>::fmt", "<Vehicle as BinWrite>::write_options", "<Vehicle as BinRead>::read_options"]),
    H("c13_twin_must_fail", "c13", "C13", tier="thorough", expect="fail", unwind=8, cost=15,
      bounds="vacuity twin: asserts that no wire value decodes to a mod; must be refuted"),
]

HAND += [
    # ---- C03 (kernel) ---------------------------------------------------------------------------
    H("c03_encode_length_kernel", "c03", "C03", unwind=2, cost=5,
      bounds="len: usize = any(), both modes: every legal length gets the specified size byte",
      functions=["insim::net::Mode::encode_length"]),
    H("c03_encode_length_refuses", "c03", "C03", unwind=2, cost=5,
      bounds="every len < 4, every compressed len not divisible by 4, every len above the mode limit",
      functions=["insim::net::Mode::encode_length"],
      allowed_fail=r"Mode::encode_length\.assertion|in function insim::net::mode::Mode::encode_length|in function insim::net::Mode::encode_length",
      require_refusal=True),
    # ---- C04 (length rule) ----------------------------------------------------------------------
    H("c04_decode_length_rule", "c04", "C04", unwind=3, cost=10,
      bounds="first byte any, buffer length 0..=1100, both modes",
      functions=["insim::net::Mode::decode_length"]),
]

PROPERTY_NOTES = {
    "C13": {
        "bounds": "all 2^32 four-byte identifiers (one symbolic [u8;4]); all built-in variants by symbolic index",
        "outside": "nothing of the wire mapping; Plc/Mal set membership rules are not part of this check",
        "assumptions": ["stub: alloc::fmt::format -> empty String (error-message text only)"],
    },
}


def _generated():
    try:
        import gen_packets
    except ImportError:
        return []
    return gen_packets.harness_index(H)


def all_harnesses():
    return HAND + _generated()


def harnesses_for(prop, tier):
    hs = [h for h in all_harnesses() if h.prop == prop]
    if tier == "quick":
        hs = [h for h in hs if h.tier == "quick"]
    return hs
