"""Registry of Kani harnesses: which property each serves, in which tier it runs, its bounds.

Hand-written harnesses are listed here; the per-packet-kind harnesses are appended from
gen_packets.harness_index() (the same function that emits their Rust source).
"""
import os, sys

HERE = os.path.dirname(os.path.abspath(__file__))
sys.path.insert(0, HERE)


class H:
    def __init__(self, name, module, prop, tier="quick", expect="pass", unwind=None, timeout=600,
                 timeout_thorough=3600, cost=30, bounds="", functions=(), allowed_fail=None,
                 require_refusal=False, mem_gb=14, mem_gb_thorough=20, kani_flags=(), fallback_inputs=()):
        self.name, self.module, self.prop, self.tier, self.expect = name, module, prop, tier, expect
        self.unwind, self.timeout, self.timeout_thorough, self.cost = unwind, timeout, timeout_thorough, cost
        self.bounds, self.functions = bounds, list(functions)
        # regex over "<cbmc check name> | <location>": failures matching it are the code's own loud
        # refusals (panics inside the named function), which the property allows
        self.allowed_fail, self.require_refusal = allowed_fail, require_refusal
        self.mem_gb, self.mem_gb_thorough = mem_gb, mem_gb_thorough
        # extra cargo-kani flags, e.g. ("-Z", "restrict-vtable"): virtual calls resolve only to implementations of
        # the called trait method (without it CBMC also tries every function of a compatible signature, e.g.
        # Read::read_exact for a Write::write_all call through Box<dyn ReadWrite>)
        self.kani_flags = list(kani_flags)
        # candidate inputs (one list of byte vectors per candidate, in kani::any() order) tried NATIVELY when the
        # solver found a counterexample but its assignment cannot be extracted (trace generation out of memory):
        # only used to confirm a solver-found failure on the real build, never to decide anything
        self.fallback_inputs = list(fallback_inputs)

    @property
    def qualified(self):
        return "%s::%s" % (self.module, self.name)


HAND = [
    # ---- C13 -----------------------------------------------------------------------------------
    H("c13_vehicle_wire", "c13", "C13", unwind=8, cost=20,
      bounds="b: [u8;4] = any() - all 2^32 wire values",
      functions=["<insim_core::vehicle::Vehicle as BinRead>::read_options", "<Vehicle as BinWrite>::write_options",
                 "Vehicle::is_mod", "Vehicle::is_builtin"]),
    H("c13_builtin_names", "c13", "C13", unwind=8, cost=40,
      bounds="i = any() < number of built-in variants (list generated from the enum declaration)",
      functions=["<Vehicle as Display>::fmt", "<Vehicle as BinWrite>::write_options", "<Vehicle as BinRead>::read_options"]),
    H("c13_twin_must_fail", "c13", "C13", tier="thorough", expect="fail", unwind=8, cost=15,
      bounds="vacuity twin: asserts that no wire value decodes to a mod; must be refuted"),
]

HAND += [
    # ---- C03 (kernel) ---------------------------------------------------------------------------
    H("c03_encode_length_kernel", "c03", "C03", unwind=2, cost=5,
      bounds="len: usize = any(), both modes: every legal length gets the specified size byte",
      functions=["insim::net::Mode::encode_length"]),
    H("c03_encode_length_refuses", "c03", "C03", unwind=2, cost=5,
      bounds="every len < 4, every compressed len not divisible by 4, every len above the mode limit",
      functions=["insim::net::Mode::encode_length"],
      allowed_fail=r"Mode::encode_length\.assertion|in function insim::net::mode::Mode::encode_length|in function insim::net::Mode::encode_length",
      require_refusal=True),
    # ---- C04 (length rule) ----------------------------------------------------------------------
    H("c04_decode_length_rule", "c04", "C04", unwind=3, cost=10,
      bounds="first byte any, buffer length 0..=1100, both modes",
      functions=["insim::net::Mode::decode_length"]),
    H("c04_decode_unknown_type", "c04", "C04", unwind=10, cost=520, timeout=1800, timeout_thorough=3600,
      bounds="compressed frame [1, 200, any, any] + 4 symbolic tail bytes in a BytesMut",
      functions=["insim::net::Codec::decode", "insim::net::Mode::decode_length", "<insim::Packet as BinRead>::read_options (all 73 variant attempts)",
                 "bytes::BytesMut::split_to", "bytes::Buf::advance"],
      fallback_inputs=[[[0]] * 6, [[255]] * 6, [[1], [2], [3], [4], [5], [6]]]),
    H("c04_decode_unknown_type_uncompressed", "c04", "C04", tier="thorough", unwind=10, cost=520, timeout=1800, timeout_thorough=3600,
      bounds="uncompressed frame [4, 200, any, any] + 4 symbolic tail bytes in a BytesMut",
      functions=["insim::net::Codec::decode", "insim::net::Mode::decode_length", "<insim::Packet as BinRead>::read_options"],
      fallback_inputs=[[[0]] * 6, [[255]] * 6, [[1], [2], [3], [4], [5], [6]]]),
]

HAND += [
    # ---- C07 ------------------------------------------------------------------------------------
    H("c07_pong_every_tiny", "c07", "C07", unwind=4, cost=20,
      bounds="reqi: u8 = any(), sub-type = any of the variants declared in tiny.rs (generated index function)",
      functions=["insim::Packet::maybe_pong", "insim::insim::Tiny::is_keepalive"]),
    H("c07_pong_other_kinds", "c07", "C07", unwind=42, cost=120,
      bounds="every non-TINY packet kind (variant list generated from packet.rs), Default payload",
      functions=["insim::Packet::maybe_pong"]),
    # ---- C08 (write half, blocking adaptor) -----------------------------------------------------
    H("c08_udp_write_4", "c08", "C08", unwind=20, cost=10, bounds="UdpStream::write of a 4-byte frame, content symbolic; UdpSocket::send stubbed (records datagrams)",
      functions=["<insim::net::blocking_impl::UdpStream as Write>::write"], kani_flags=("-Z", "restrict-vtable")),
    H("c08_udp_write_12", "c08", "C08", unwind=20, cost=10, bounds="UdpStream::write of a 12-byte frame, content symbolic",
      functions=["<insim::net::blocking_impl::UdpStream as Write>::write"], kani_flags=("-Z", "restrict-vtable")),
    H("c08_framed_udp_two_packets", "c08", "C08", unwind=20, cost=120, timeout=900,
      bounds="blocking Framed over UdpStream, two packets (frames of 4 and 8 symbolic bytes from the encoder model)",
      functions=["insim::net::blocking_impl::Framed::write", "std::io::Write::write_all", "<UdpStream as Write>::write"],
      kani_flags=("-Z", "restrict-vtable")),
    H("c08_twin_must_fail", "c08", "C08", tier="thorough", expect="fail", unwind=20, cost=10,
      bounds="vacuity twin: claims nothing is ever sent; must be refuted", kani_flags=("-Z", "restrict-vtable")),
    # ---- C09 ------------------------------------------------------------------------------------
    H("c09_gate_every_version", "c09", "C09", unwind=8, cost=20,
      bounds="insimver: u8 = any(), reqi any, other VER fields default",
      functions=["insim::Packet::maybe_verify_version"]),
    H("c09_gate_other_kinds", "c09", "C09", unwind=42, cost=120,
      bounds="every non-VER packet kind (generated list), Default payload",
      functions=["insim::Packet::maybe_verify_version"]),
    # ---- C14 ------------------------------------------------------------------------------------
    H("c14_wire_to_track", "c14", "C14", unwind=8, cost=200, timeout=900,
      bounds="b: [u8;6] = any() - all 2^48 six-byte values",
      functions=["<insim_core::track::Track as BinRead>::read_options", "<Track as BinWrite>::write_options", "Track::code",
                 "Track::is_reverse", "Track::is_open", "Track::distance_mile", "Track::distance_km"]),
    H("c14_track_to_wire", "c14", "C14", unwind=8, cost=200, timeout=900,
      bounds="i = any() < number of Track variants (index->variant function generated from the enum declaration)",
      functions=["<Track as BinWrite>::write_options", "<Track as BinRead>::read_options", "Track::code", "Track::license",
                 "Track::is_reverse", "Track::is_open", "Track::distance_mile", "Track::distance_km"]),
    H("c14_twin_must_fail", "c14", "C14", tier="thorough", expect="fail", unwind=8, cost=60,
      bounds="vacuity twin: claims only 3-character codes decode; must be refuted"),
    # ---- C15 ------------------------------------------------------------------------------------
    H("c15_racelaps_bytes", "c15", "C15", unwind=3, cost=5, bounds="all 256 race-length bytes",
      functions=["<insim::insim::RaceLaps as From<u8>>::from", "<u8 as From<RaceLaps>>::from"]),
    H("c15_racelaps_laps_encode", "c15", "C15", unwind=3, cost=5, bounds="Laps(n), n: usize = any()",
      functions=["<u8 as From<RaceLaps>>::from", "<RaceLaps as From<u8>>::from"]),
    H("c15_racelaps_hours_encode", "c15", "C15", unwind=3, cost=5, bounds="Hours(h), h: usize = any()",
      functions=["<u8 as From<RaceLaps>>::from", "<RaceLaps as From<u8>>::from"]),
] + [
    H("c15_duration_%s_s%d_%s" % (t, s, k), "c15", "C15", tier="thorough" if (t, s, k) == ("u32", 10, "wire") else "quick", unwind=10, cost=30,
      bounds=("every %s wire value" % t) if k == "wire" else "Duration::new(secs <= 2^34, any nanos)",
      functions=["insim_core::duration::binrw_parse_duration::<%s, %d>" % (t, s), "insim_core::duration::binrw_write_duration::<%s, %d>" % (t, s)])
    for t in ("u16", "u32") for s in (1, 10) for k in ("wire", "encode")
] + [
    H("c15_duration_%s_s%d_huge" % (t, s), "c15", "C15", unwind=10, cost=30,
      bounds="Duration::new(secs in (2^34, u64::MAX], any nanos): must be refused",
      functions=["insim_core::duration::binrw_write_duration::<%s, %d>" % (t, s)])
    for t in ("u16", "u32") for s in (1, 10)
] + [
] + [
    H("c15_small_%s_wire" % k, "c15", "C15", tier="quick" if k == "nli" else "thorough", unwind=8, cost=300, timeout=900, timeout_thorough=2400,
      bounds="SMALL sub-type %s x every u32 value" % k.upper(),
      functions=["<insim::insim::SmallType as BinRead>::read_options", "<SmallType as BinWrite>::write_options"])
    for k in ("ssp", "ssg", "stp", "rtp", "nli")
] + [
] + [
    H("c15_small_%s_encode" % k, "c15", "C15", tier="quick" if k in ("ssp", "nli") else "thorough", unwind=8, cost=60, timeout=900,
      bounds="SMALL sub-type %s x any Duration (secs any u64, any nanos)" % k.upper(),
      functions=["<insim::insim::SmallType as BinWrite>::write_options"])
    for k in ("ssp", "ssg", "stp", "rtp", "nli")
] + [
    # ---- C16 ------------------------------------------------------------------------------------
    H("c16_order_axioms", "c16", "C16", cost=10,
      bounds="three symbolic GameVersions: major any f32 except NaN and -0.0, minor any char, patch any Option<usize>",
      functions=["<insim_core::game_version::GameVersion as Ord>::cmp", "<GameVersion as PartialEq>::eq", "<GameVersion as PartialOrd>::partial_cmp"]),
    H("c16_twin_must_fail", "c16", "C16", tier="thorough", expect="fail", cost=10,
      bounds="vacuity twin: claims order is decided by the number alone; must be refuted"),
    # ---- C18 ------------------------------------------------------------------------------------
    H("c18_builder_program", "c18", "C18", unwind=20, cost=120,
      bounds="optional isi_flags(any) ; 4 setter calls (setter = any of 10, value any bool) with an optional isi_flags(any) after the 2nd ; prefix/interval/reqi present or absent ; tcp | udp(Some) | udp(None) | relay",
      functions=["insim::Builder::default", "Builder::isi_flag_* (10)", "Builder::isi_flags", "Builder::isi_prefix", "Builder::isi_interval",
                 "Builder::isi_reqi", "Builder::tcp", "Builder::udp", "Builder::relay", "Builder::isi"]),
    H("c18_builder_strings", "c18", "C18", unwind=20, cost=60,
      bounds="program name / admin password: unset | set | set twice | set then cleared (fixed ASCII samples)",
      functions=["Builder::isi_iname", "Builder::isi_admin_password", "Builder::isi"]),
] + [
    H("c18_handshake_%s" % m, "c18", "C18", unwind=70, cost=200, timeout=900,
      bounds="builder: MCI|CON, prefix '!', interval 1000 ms, request id any u8, %s mode; recording transport" % m,
      functions=["insim::net::blocking_impl::Framed::handshake", "Framed::write", "insim::net::Codec::encode", "<Isi as BinWrite>::write_options", "Builder::isi"])
    for m in ("compressed", "uncompressed")
] + [
    # ---- C06 ------------------------------------------------------------------------------------
    H("c06_blocking_short_writes", "c06", "C06", unwind=10, cost=120, timeout=900,
      bounds="2 packets whose frames are 4 and 8 symbolic bytes (Codec::encode replaced by a frame model), transport accepts any k in 1..=len per call (<= 12 calls)",
      functions=["insim::net::blocking_impl::Framed::write", "std::io::Write::write_all (default method, via Box<dyn ReadWrite>)"],
      kani_flags=("-Z", "restrict-vtable")),
    H("c06_twin_must_fail", "c06", "C06", tier="thorough", expect="fail", unwind=10, cost=60,
      bounds="vacuity twin: claims one transport call per packet; must be refuted", kani_flags=("-Z", "restrict-vtable")),
    # ---- C17 ------------------------------------------------------------------------------------
    H("c17_pth_image_0", "c17", "C17", unwind=8, cost=30, bounds="PTH image, node count 0, all other bytes symbolic (16 bytes)",
      functions=["insim_pth::Pth::read", "insim_pth::Pth::write"]),
    H("c17_pth_image_1", "c17", "C17", unwind=8, cost=60, bounds="PTH image, node count 1, all other bytes symbolic (56 bytes)",
      functions=["insim_pth::Pth::read", "insim_pth::Pth::write"]),
    H("c17_pth_image_2", "c17", "C17", tier="thorough", unwind=8, cost=900, mem_gb_thorough=20, bounds="PTH image, node count 2, all other bytes symbolic (96 bytes)",
      functions=["insim_pth::Pth::read", "insim_pth::Pth::write"]),
    H("c17_pth_bad_magic", "c17", "C17", unwind=8, cost=30, bounds="16-byte image with any magic other than LFSPTH",
      functions=["insim_pth::Pth::read"]),
] + [
    H("c17_pth_cut_%d" % c, "c17", "C17", tier="quick" if c in (55, 16) else "thorough", unwind=8, cost=40,
      bounds="one-node PTH image (count field 1, rest symbolic) truncated to %d of 56 bytes" % c,
      functions=["insim_pth::Pth::read"]) for c in (55, 36, 16)
] + [
] + [
    H("c17_pth_count_%s" % k, "c17", "C17", tier="quick" if k in ("neg1", "max") else "thorough", unwind=8, cost=60,
      bounds="header-only PTH image with node count field = %s (concrete), other bytes symbolic" % v,
      functions=["insim_pth::Pth::read", "binrw::helpers::count_with (profile: generic path)"])
    for k, v in (("neg1", "-1"), ("min", "i32::MIN"), ("max", "i32::MAX"), ("million", "1000000"))
] + [
    H("c17_smx_write_layout", "c17", "C17", unwind=40, cost=120, timeout=900,
      bounds="SMX value with 1 object (1 point, 1 triangle), 1 checkpoint, all numeric fields symbolic, 3-character ASCII track name: writer output against the documented layout",
      functions=["insim_smx::Smx::write (BinWrite)", "insim_core::string::binrw_write_codepage_string::<32>"]),
]

def _c11():
    import re
    src = open(os.path.join(os.path.dirname(HERE), "kani", "src", "c11.rs")).read()
    quick = {"c11_fixed8_len0", "c11_fixed8_len7", "c11_fixed8_len8", "c11_fixed8_len9", "c11_fixed8_len16", "c11_fixed24_len24",
             "c11_fixed24_len25", "c11_var64_len3", "c11_var64_len4", "c11_var64_len5", "c11_mst_len63", "c11_mst_len64",
             "c11_mtc_len3", "c11_mtc_len4", "c11_read8", "c11_read24", "c11_var240_len253", "c11_var128_len256"}
    out = []
    for kind, name, args in re.findall(r"^(fixed_write|var_write|terminated|fixed_read)!\((c11_\w+),([^)]*)\);", src, re.M):
        a = [x.strip() for x in args.split(",")]
        if kind == "fixed_write":
            b = "fixed-width writer N=%s, text length %s (concrete), content symbolic ASCII" % (a[0], a[1])
            f = ["insim_core::string::binrw_write_codepage_string::<%s>" % a[0]]
        elif kind == "var_write":
            b = "variable-width writer MAX=%s align 4, text length %s (concrete), content symbolic ASCII" % (a[0], a[1])
            f = ["insim_core::string::binrw_write_codepage_string::<%s> (align_to = 4)" % a[0]]
        elif kind == "terminated":
            b = "%s with %s of length %s (concrete), content symbolic ASCII: last byte NUL" % (a[0], a[1], a[2])
            f = ["<%s as BinWrite>::write_options" % a[0], "insim_core::string::binrw_write_codepage_string"]
        else:
            b = "fixed-width reader N=%s over every [u8; N] image (ASCII model of the conversion)" % a[0]
            f = ["insim_core::string::binrw_parse_codepage_string::<%s>" % a[0], "insim_core::string::strip_trailing_nul"]
        out.append(H(name, "c11", "C11", tier="quick" if name in quick else "thorough", unwind=490, cost=60, timeout=600, bounds=b, functions=f))
    return out


HAND += _c11()

PROPERTY_NOTES = {
    "C01": {
        "bounds": "per packet kind and configuration listed in closing_set.json: every field symbolic in its wire domain (full integer ranges, every declared enum variant, every subset of defined flag bits, nibbles 0..15); text of CONCRETE length per configuration (3 / full width <= 24 / 0) with symbolic ASCII content; element counts concrete 0/1/2 with symbolic elements; time fields from a 5-value boundary menu; hash sets empty (MAL/IPB also one element where it closes); SMALL one sub-type per configuration (timed sub-types: C15); Ver.version fixed",
        "outside": "Codec::encode over a symbolic payload (does not close: the writer is entered through <Packet as BinWrite>::write_options on a slice cursor; Codec::encode is checked per kind on Default payloads in C03 and for every length by the kernel); a separate re-encode query (implied by field-wise equality of all fields + determinism of the writer); multi-codepage text; other text lengths and counts; kinds/configurations that do not close (DESIGN.md section 8)",
        "assumptions": ["stubs: alloc::fmt::format -> empty String; insim_core::string::codepages::to_lossy_string/to_lossy_bytes -> ASCII model (input assumed ASCII); std::hash::RandomState::new -> fixed keys",
                        "harness idioms: the frame length and the element-count / sub-type bytes are ASSERTED equal to their expected values and then re-stored as constants (DESIGN.md 3.2a)"],
    },
    "C02": {
        "bounds": "as C01; oracle = spec/insim_v9.py (independent transcription of InSim.txt v9 and the relay description); plus concrete tables: every enum variant's number, every flag constant's bit, every PLC/ALC car bit",
        "outside": "PSE_ pit-work bit numbers, time units where the document is prose only, IP byte order, PlayerHandicapFlags constants (type not nameable); as C01",
        "assumptions": ["the oracle is the author's transcription from memory of the specification documents (no copy in the sandbox)", "stubs and idioms as C01"],
    },
    "C03": {
        "bounds": "Mode::encode_length: every usize length x both modes; per kind: writer output behind the size byte is a multiple of 4 in range with the right type and count bytes (counts 0..2, fixed text lengths); Codec::encode(Default payload, symbolic request id) in both modes; arbitrary body bytes -> reader -> writer never aborts (kinds without text)",
        "outside": "counts above 2, other text lengths; decode-then-encode for text kinds (decoded text has a symbolic length); Codec::encode over symbolic payloads of larger kinds",
        "assumptions": ["'refused loudly' = a panic located inside Mode::encode_length (allowed_fail); stubs as C01"],
    },
    "C04": {
        "bounds": "Mode::decode_length: every first byte x buffer length 0..=1100 x mode; per kind: <K as BinRead>::read_options over arbitrary bytes of the nominal body size (count byte concrete 0..2): no panic, no read beyond the frame; Codec::decode on [size, 200, any, any] + 4 symbolic tail bytes: error, frame removed exactly, tail intact",
        "outside": "Codec::decode on frames of a known type with symbolic bytes / symbolic buffer length (no result in 25 min, 14 GB): the success path's frame removal and decode-side type dispatch are not decided",
        "assumptions": ["stubs as C01"],
    },
    "C06": {
        "bounds": "blocking Framed::write twice; transport accepts any k in 1..=len per call (<= 12 calls); frames of 4 and 8 symbolic bytes",
        "outside": "tokio connection, UDP/WebSocket adaptors; transports that return errors / WouldBlock; the real encoder's Bytes (Codec::encode is replaced by a frame model in this harness; C03 owns the encoder)",
        "assumptions": ["stub: insim::net::Codec::encode -> frame model (static storage, symbolic content, concrete lengths)", "kani flag -Z restrict-vtable (virtual calls resolve only to implementations of the called trait method)"],
    },
    "C07": {
        "bounds": "Packet::maybe_pong / Tiny::is_keepalive: request id any u8 x every TinyType variant; every other packet kind (Default payload)",
        "outside": "the connection's use of the function (reply written once, before returning the keep-alive, nothing else written): Framed::read does not close",
        "assumptions": ["stubs: alloc::fmt::format, std::hash::RandomState::new"],
    },
    "C08": {
        "bounds": "WRITE half of the blocking UDP adaptor: UdpStream::write of 4- and 12-byte frames (content symbolic); two packets through blocking Framed over UdpStream (frames from the encoder model)",
        "outside": "the READ half (UdpStream::read: out of memory even with concrete datagram and read sizes); the tokio UDP adaptor (needs a reactor); long sessions",
        "assumptions": ["stubs: std::net::UdpSocket::send -> records the datagram and reports the full length (a datagram socket sends all or fails); insim::net::Codec::encode -> frame model; kani flag -Z restrict-vtable"],
    },
    "C09": {
        "bounds": "Packet::maybe_verify_version: all 256 InSim versions; every other packet kind; insim::VERSION == 9",
        "outside": "application of the gate inside Framed::read and Builder::verify_version wiring",
        "assumptions": ["stubs: alloc::fmt::format, std::hash::RandomState::new"],
    },
    "C11": {
        "bounds": "text LENGTH concrete per harness (0, 1, N-1, N, N+1, 2N around widths 6/8/16/24/32/64/96/128 and align-4 maxima 64/128/240), content symbolic printable ASCII; fixed-width reader over every [u8; N] image for N in 6/8/16/24/32/64",
        "outside": "lengths not listed; non-ASCII text (encoded length != character count)",
        "assumptions": ["stubs: to_lossy_string / to_lossy_bytes ASCII model, alloc::fmt::format"],
    },
    "C13": {
        "exhaustive": True,
        "bounds": "all 2^32 four-byte identifiers (one symbolic [u8;4]); all built-in variants by symbolic index",
        "outside": "nothing of the wire mapping; Plc/Mal set membership rules are not part of this check",
        "assumptions": ["stub: alloc::fmt::format -> empty String (error-message text only)"],
    },
    "C14": {
        "exhaustive": True,
        "bounds": "all 2^48 six-byte values; all Track variants by symbolic index (list generated from the enum declaration)",
        "outside": "complete_name / Display text",
        "assumptions": ["stub: alloc::fmt::format"],
    },
    "C15": {
        "bounds": "all 256 race-length bytes; Laps(n)/Hours(h) for every usize; every u16/u32 wire value of the four duration instantiations (through IS_CPP, IS_HLV, IS_PSF, IS_CSC); every Duration up to Duration::MAX on the encode side; SMALL timed sub-types: every u32 value / every Duration",
        "outside": "nothing within the conversions; which packets use which instantiation is C01/C02",
        "assumptions": ["stub: alloc::fmt::format"],
    },
    "C16": {
        "bounds": "three symbolic GameVersions: major any f32 except NaN and -0.0, minor any char, patch any Option<usize>",
        "outside": "FromStr / Display (dec2flt, float formatting: no result in 20 min even for '0.7' + one symbolic letter)",
        "assumptions": ["NaN and -0.0 excluded: the parser accepts digits and dots only (argument from reading from_str, not a solver result)"],
    },
    "C17": {
        "bounds": "PTH: node count 0/1/2 concrete, every other byte symbolic; wrong magic; cuts at 16/36/55 of 56 bytes; counts -1, i32::MIN, i32::MAX, 10^6 on a header-only image. SMX: writer only, 1 object (1 point, 1 triangle), 1 checkpoint, numeric fields symbolic",
        "outside": "SMX reader (does not close); symbolic count field / truncation point; files; allocation size",
        "assumptions": ["stubs: alloc::fmt::format, to_lossy_bytes ASCII model"],
    },
    "C18": {
        "bounds": "builder program: optional isi_flags(any); 4 setter calls (setter any of 10, value any) with optional isi_flags(any) after the 2nd; prefix/interval/request id present or absent; two transport choices in sequence (none|udp(Some)|tcp|relay then tcp|udp(Some)|udp(None)|relay); name/password set, overridden, cleared; handshake over a recording transport in both modes (configuration concrete apart from the request id)",
        "outside": "connect_blocking / connect_async (sockets); Codec::encode over a symbolic ISI inside the handshake",
        "assumptions": ["stubs: alloc::fmt::format, to_lossy_bytes ASCII model"],
    },
}


CLOSING_SET = os.path.join(os.path.dirname(HERE), "closing_set.json")
QUICK_MAX_S, THOROUGH_MAX_S = 240, 900


def _generated(include_unclosed=False):
    """Per-kind harnesses from gen_packets. Only harnesses that were measured to close on the unchanged tree
    (closing_set.json, written by tools/sweep.py) are registered: one that needs more than the caps is not a
    check, and is listed in DESIGN.md as attempted/outside. Tier by measured cost."""
    try:
        import gen_packets
    except ImportError:
        return []
    hs = gen_packets.harness_index(H)
    if include_unclosed or not os.path.exists(CLOSING_SET):
        return hs
    import json
    cs = json.load(open(CLOSING_SET))
    out = []
    import re as _re
    quick_kinds = {k.lower() for k in gen_packets.QUICK_KINDS}
    for h in hs:
        rec = cs.get(h.name)
        if not rec or rec["status"] == "inconclusive" or rec.get("cbmc_s") is None:
            continue
        t = rec["cbmc_s"]
        if t > THOROUGH_MAX_S:
            continue
        h.cost = t
        h.timeout = max(600, int(t * 5))
        h.timeout_thorough = max(1200, int(t * 6))
        # tier by measured cost: the quick tier covers every kind whose basic configuration is cheap
        n = h.name
        kind = n.split("_")[1]
        basic = not _re.search(r"_(t0|tf|n0|n2)(_|$)", n)
        if n in ("c02_flag_bit_tables", "c02_enum_number_tables", "c03_mal_n1_encodable"):
            tier = "quick"
        elif n.startswith("c02_plc_car_bit_"):
            tier = "quick" if n in ("c02_plc_car_bit_0", "c02_plc_car_bit_19") else "thorough"
        elif n.endswith("_w"):
            tier = "quick" if t <= 100 else "thorough"
        elif n.startswith(("c01_", "c02_")):
            # cheap kinds, plus the irregular (hand-written reader/writer, many sub-fields) kinds even when dearer
            tier = "quick" if basic and (t <= 100 or (kind in quick_kinds and t <= 400)) else "thorough"
        elif n.startswith("c04_mso_ts"):
            tier = "quick" if n in ("c04_mso_ts2_body", "c04_mso_ts200_body") else "thorough"
        elif n.startswith("c04_"):
            tier = "quick" if basic and t <= 100 else "thorough"
        elif n.endswith("_codec"):
            tier = "quick" if kind in quick_kinds and t <= 100 else "thorough"
        elif n.endswith("_reencode"):
            tier = "quick" if basic and kind in quick_kinds and t <= 60 else "thorough"
        else:  # c03_K_<cfg> writer-shape harnesses
            tier = "quick" if basic and t <= 60 else "thorough"
        h.tier = tier
        out.append(h)
    return out


def all_harnesses(include_unclosed=False):
    return HAND + _generated(include_unclosed)


def harnesses_for(prop, tier):
    hs = [h for h in all_harnesses() if h.prop == prop]
    if tier == "quick":
        hs = [h for h in hs if h.tier == "quick"]
    return hs
