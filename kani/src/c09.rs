//! C09 — version gate decision function (its application inside the connection is outside: DESIGN.md C09).
use crate::common::*;
use crate::gen_tables::*;
use insim::identifiers::RequestId;
use insim::insim::Ver;
use insim::Packet;

#[kani::proof]
#[kani::unwind(8)]
#[kani::stub(alloc::fmt::format, stub_format)]
fn c09_gate_every_version() {
    let v: u8 = kani::any();
    let mut ver = Ver::default();
    ver.insimver = v;
    ver.reqi = RequestId(kani::any());
    let p = Packet::Ver(ver);
    let r = p.maybe_verify_version();
    match &r {
        Ok(b) => {
            assert!(v == 9, "C09:accepted only for InSim version 9");
            assert!(*b, "C09:a version packet is reported as verified");
            kani::cover!(true, "version 9 accepted");
        }
        Err(insim::Error::IncompatibleVersion(x)) => {
            assert!(v != 9, "C09:version 9 must not be rejected");
            assert!(*x == v, "C09:the error carries the reported version");
            kani::cover!(v == 8, "version 8 rejected");
            kani::cover!(v == 10, "version 10 rejected");
        }
        Err(_) => assert!(false, "C09:only the incompatible-version error is produced"),
    }
    assert!(insim::VERSION == 9, "C09:library speaks InSim 9");
    std::mem::forget(r);
    std::mem::forget(p);
}

#[kani::proof]
#[kani::unwind(42)]
#[kani::stub(alloc::fmt::format, stub_format)]
#[kani::stub(std::hash::RandomState::new, stub_random_state)]
fn c09_gate_other_kinds() {
    let i: usize = kani::any();
    kani::assume(i < PACKET_KIND_COUNT && i != VER_INDEX);
    let p = packet_default_by_index(i);
    let r = p.maybe_verify_version();
    let pass = matches!(&r, Ok(false));
    std::mem::forget(r);
    std::mem::forget(p);
    assert!(pass, "C09:no other packet kind is ever rejected or claimed verified");
    kani::cover!(i == 0, "first kind reached");
}
