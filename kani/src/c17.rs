//! C17 — PTH / SMX in-memory images with fixed small counts (DESIGN.md C17 for what is outside).
use crate::common::*;
use binrw::{BinRead, BinWrite};
use insim_pth::Pth;
use insim_smx::Smx;
use std::io::Cursor;

macro_rules! pth_image {
    ($name:ident, $n:expr, $len:expr) => {
        /// node count field = $n (concrete), every other byte symbolic (NaN bit patterns included)
        #[kani::proof]
        #[kani::unwind(8)]
        #[kani::stub(alloc::fmt::format, stub_format)]
        fn $name() {
            let mut img: [u8; $len] = kani::any();
            img[0] = b'L'; img[1] = b'F'; img[2] = b'S'; img[3] = b'P'; img[4] = b'T'; img[5] = b'H';
            img[8] = $n; img[9] = 0; img[10] = 0; img[11] = 0;
            let mut c = Cursor::new(&img[..]);
            let r = Pth::read(&mut c);
            match &r {
                Ok(p) => {
                    assert!(c.position() == $len, "C17:PTH reader consumes the whole image");
                    assert!(p.nodes.len() == $n, "C17:PTH node count as declared");
                    assert!(p.version == img[6] && p.revision == img[7], "C17:PTH header fields");
                    let mut out = [0xAAu8; $len];
                    let mut w = Cursor::new(&mut out[..]);
                    assert!(p.write(&mut w).is_ok(), "C17:parsed PTH writes");
                    assert!(w.position() == $len, "C17:written PTH has the same length");
                    let i: usize = kani::any();
                    kani::assume(i < $len);
                    assert!(out[i] == img[i], "C17:written PTH bytes identical to the bytes read");
                    kani::cover!(true, "PTH image parsed");
                }
                Err(_) => assert!(false, "C17:well-formed PTH image rejected"),
            }
            std::mem::forget(r);
        }
    };
}
pth_image!(c17_pth_image_0, 0, 16);
pth_image!(c17_pth_image_1, 1, 56);
pth_image!(c17_pth_image_2, 2, 96);

/// a PTH image with a wrong magic is rejected
#[kani::proof]
#[kani::unwind(8)]
#[kani::stub(alloc::fmt::format, stub_format)]
fn c17_pth_bad_magic() {
    let mut img: [u8; 16] = kani::any();
    kani::assume(!(img[0] == b'L' && img[1] == b'F' && img[2] == b'S' && img[3] == b'P' && img[4] == b'T' && img[5] == b'H'));
    img[8] = 0; img[9] = 0; img[10] = 0; img[11] = 0;
    let mut c = Cursor::new(&img[..]);
    let r = Pth::read(&mut c);
    let ok = r.is_ok();
    std::mem::forget(r);
    assert!(!ok, "C17:PTH with a wrong magic accepted");
}

/// a one-node PTH cut short at a fixed set of points inside its declared content is rejected
macro_rules! pth_truncated {
    ($name:ident, $cut:expr) => {
        #[kani::proof]
        #[kani::unwind(8)]
        #[kani::stub(alloc::fmt::format, stub_format)]
        fn $name() {
            let mut img: [u8; 56] = kani::any();
            img[0] = b'L'; img[1] = b'F'; img[2] = b'S'; img[3] = b'P'; img[4] = b'T'; img[5] = b'H';
            img[8] = 1; img[9] = 0; img[10] = 0; img[11] = 0;
            let mut c = Cursor::new(&img[..$cut]);
            let r = Pth::read(&mut c);
            let ok = r.is_ok();
            std::mem::forget(r);
            assert!(!ok, "C17:PTH cut short inside its declared content accepted");
        }
    };
}
pth_truncated!(c17_pth_cut_55, 55);
pth_truncated!(c17_pth_cut_36, 36);
pth_truncated!(c17_pth_cut_16, 16);

/// hostile node counts (concrete per harness: a symbolic count does not close) on a header-only image:
/// rejected without a panic
macro_rules! pth_hostile_count {
    ($name:ident, $count:expr) => {
        #[kani::proof]
        #[kani::unwind(8)]
        #[kani::stub(alloc::fmt::format, stub_format)]
        fn $name() {
            let mut img: [u8; 16] = kani::any();
            img[0] = b'L'; img[1] = b'F'; img[2] = b'S'; img[3] = b'P'; img[4] = b'T'; img[5] = b'H';
            let c: i32 = $count;
            let cb = c.to_le_bytes();
            img[8] = cb[0]; img[9] = cb[1]; img[10] = cb[2]; img[11] = cb[3];
            let mut cur = Cursor::new(&img[..]);
            let r = Pth::read(&mut cur);
            let ok = r.is_ok();
            std::mem::forget(r);
            assert!(!ok, "C17:PTH declaring more nodes than the input holds accepted");
        }
    };
}
pth_hostile_count!(c17_pth_count_neg1, -1);
pth_hostile_count!(c17_pth_count_min, i32::MIN);
pth_hostile_count!(c17_pth_count_max, i32::MAX);
pth_hostile_count!(c17_pth_count_million, 1_000_000);

/// SMX header (64 bytes) + object count 0 + checkpoint count 0/1
macro_rules! smx_image {
    ($name:ident, $nobj:expr, $ncp:expr, $len:expr, $objbytes:expr) => {
        #[kani::proof]
        #[kani::unwind(34)]
        #[kani::stub(alloc::fmt::format, stub_format)]
        #[kani::stub(insim_core::string::codepages::to_lossy_string, stub_to_lossy_string)]
        #[kani::stub(insim_core::string::codepages::to_lossy_bytes, stub_to_lossy_bytes)]
        fn $name() {
            let mut img: [u8; $len] = kani::any();
            img[0] = b'L'; img[1] = b'F'; img[2] = b'S'; img[3] = b'S'; img[4] = b'M'; img[5] = b'X';
            // canonical file: spare bytes zero, track name NUL padded after its first NUL
            img[12] = 0; img[13] = 0; img[14] = 0; img[15] = 0;
            let mut k = 51; while k < 60 { img[k] = 0; k += 1; }
            // track name: 3 symbolic non-NUL ASCII bytes, NUL padded (a symbolic name LENGTH does not close, DESIGN C11)
            let mut k = 16; while k < 19 { kani::assume(img[k] != 0 && img[k] < 0x80); k += 1; }
            let mut k = 19; while k < 48 { img[k] = 0; k += 1; }
            img[60] = $nobj; img[61] = 0; img[62] = 0; img[63] = 0;
            let o = 64 + $objbytes;
            if $nobj == 1 {
                // one object with 1 point and 1 triangle: counts at offset 64+16 and 64+20
                img[64 + 16] = 1; img[64 + 17] = 0; img[64 + 18] = 0; img[64 + 19] = 0;
                img[64 + 20] = 1; img[64 + 21] = 0; img[64 + 22] = 0; img[64 + 23] = 0;
                // triangle spare
                img[64 + 24 + 16 + 6] = 0; img[64 + 24 + 16 + 7] = 0;
            }
            img[o] = $ncp; img[o + 1] = 0; img[o + 2] = 0; img[o + 3] = 0;
            let mut c = Cursor::new(&img[..]);
            let r = Smx::read(&mut c);
            match &r {
                Ok(p) => {
                    assert!(c.position() == $len, "C17:SMX reader consumes the whole image");
                    assert!(p.objects.len() == $nobj && p.checkpoint_object_index.len() == $ncp, "C17:SMX counts as declared");
                    let mut out = [0xAAu8; $len];
                    let mut w = Cursor::new(&mut out[..]);
                    assert!(p.write(&mut w).is_ok(), "C17:parsed SMX writes");
                    assert!(w.position() == $len, "C17:written SMX has the same length");
                    let i: usize = kani::any();
                    kani::assume(i < $len);
                    assert!(out[i] == img[i], "C17:written SMX bytes identical to the canonical bytes read");
                    kani::cover!(true, "SMX image parsed");
                }
                Err(_) => assert!(false, "C17:well-formed SMX image rejected"),
            }
            std::mem::forget(r);
        }
    };
}
smx_image!(c17_smx_image_0_0, 0, 0, 68, 0);
smx_image!(c17_smx_image_0_1, 0, 1, 72, 0);
smx_image!(c17_smx_image_1_1, 1, 1, 120, 48);
