//! C17 — PTH / SMX in-memory images with fixed small counts (DESIGN.md C17 for what is outside).
use crate::common::*;
use binrw::{BinRead, BinWrite};
use insim_pth::Pth;
use insim_smx::Smx;
use std::io::Cursor;

macro_rules! pth_image {
    ($name:ident, $n:expr, $len:expr) => {
        /// node count field = $n (concrete), every other byte symbolic (NaN bit patterns included)
        #[kani::proof]
        #[kani::unwind(8)]
        #[kani::stub(alloc::fmt::format, stub_format)]
        fn $name() {
            let mut img: [u8; $len] = kani::any();
            img[0] = b'L'; img[1] = b'F'; img[2] = b'S'; img[3] = b'P'; img[4] = b'T'; img[5] = b'H';
            img[8] = $n; img[9] = 0; img[10] = 0; img[11] = 0;
            let mut c = Cursor::new(&img[..]);
            let r = Pth::read(&mut c);
            match &r {
                Ok(p) => {
                    assert!(c.position() == $len, "C17:PTH reader consumes the whole image");
                    assert!(p.nodes.len() == $n, "C17:PTH node count as declared");
                    assert!(p.version == img[6] && p.revision == img[7], "C17:PTH header fields");
                    let mut out = [0xAAu8; $len];
                    let mut w = Cursor::new(&mut out[..]);
                    assert!(p.write(&mut w).is_ok(), "C17:parsed PTH writes");
                    assert!(w.position() == $len, "C17:written PTH has the same length");
                    let i: usize = kani::any();
                    kani::assume(i < $len);
                    assert!(out[i] == img[i], "C17:written PTH bytes identical to the bytes read");
                    kani::cover!(true, "PTH image parsed");
                }
                Err(_) => assert!(false, "C17:well-formed PTH image rejected"),
            }
            std::mem::forget(r);
        }
    };
}
pth_image!(c17_pth_image_0, 0, 16);
pth_image!(c17_pth_image_1, 1, 56);
pth_image!(c17_pth_image_2, 2, 96);

/// a PTH image with a wrong magic is rejected
#[kani::proof]
#[kani::unwind(8)]
#[kani::stub(alloc::fmt::format, stub_format)]
fn c17_pth_bad_magic() {
    let mut img: [u8; 16] = kani::any();
    kani::assume(!(img[0] == b'L' && img[1] == b'F' && img[2] == b'S' && img[3] == b'P' && img[4] == b'T' && img[5] == b'H'));
    img[8] = 0; img[9] = 0; img[10] = 0; img[11] = 0;
    let mut c = Cursor::new(&img[..]);
    let r = Pth::read(&mut c);
    let ok = r.is_ok();
    std::mem::forget(r);
    assert!(!ok, "C17:PTH with a wrong magic accepted");
}

/// a one-node PTH cut short at a fixed set of points inside its declared content is rejected
macro_rules! pth_truncated {
    ($name:ident, $cut:expr) => {
        #[kani::proof]
        #[kani::unwind(8)]
        #[kani::stub(alloc::fmt::format, stub_format)]
        fn $name() {
            let mut img: [u8; 56] = kani::any();
            img[0] = b'L'; img[1] = b'F'; img[2] = b'S'; img[3] = b'P'; img[4] = b'T'; img[5] = b'H';
            img[8] = 1; img[9] = 0; img[10] = 0; img[11] = 0;
            let mut c = Cursor::new(&img[..$cut]);
            let r = Pth::read(&mut c);
            let ok = r.is_ok();
            std::mem::forget(r);
            assert!(!ok, "C17:PTH cut short inside its declared content accepted");
        }
    };
}
pth_truncated!(c17_pth_cut_55, 55);
pth_truncated!(c17_pth_cut_36, 36);
pth_truncated!(c17_pth_cut_16, 16);

/// hostile node counts (concrete per harness: a symbolic count does not close) on a header-only image:
/// rejected without a panic
macro_rules! pth_hostile_count {
    ($name:ident, $count:expr) => {
        #[kani::proof]
        #[kani::unwind(8)]
        #[kani::stub(alloc::fmt::format, stub_format)]
        fn $name() {
            let mut img: [u8; 16] = kani::any();
            img[0] = b'L'; img[1] = b'F'; img[2] = b'S'; img[3] = b'P'; img[4] = b'T'; img[5] = b'H';
            let c: i32 = $count;
            let cb = c.to_le_bytes();
            img[8] = cb[0]; img[9] = cb[1]; img[10] = cb[2]; img[11] = cb[3];
            let mut cur = Cursor::new(&img[..]);
            let r = Pth::read(&mut cur);
            let ok = r.is_ok();
            std::mem::forget(r);
            assert!(!ok, "C17:PTH declaring more nodes than the input holds accepted");
        }
    };
}
pth_hostile_count!(c17_pth_count_neg1, -1);
pth_hostile_count!(c17_pth_count_min, i32::MIN);
pth_hostile_count!(c17_pth_count_max, i32::MAX);
pth_hostile_count!(c17_pth_count_million, 1_000_000);

/// SMX writer against the documented layout (the SMX READER does not close even for an empty file:
/// after the pad/seek steps of the header CBMC no longer treats the count fields as constants and
/// unrolls the nested object/point/triangle readers - 16 GB; DESIGN.md C17). One object with one point
/// and one triangle, one checkpoint, every numeric field symbolic, 3-character track name.
#[kani::proof]
#[kani::unwind(40)]
#[kani::stub(alloc::fmt::format, stub_format)]
#[kani::stub(insim_core::string::codepages::to_lossy_bytes, stub_to_lossy_bytes)]
fn c17_smx_write_layout() {
    use insim_core::point::Point;
    use insim_smx::{Argb, Object, ObjectPoint, Rgb, Triangle};
    let hdr: [u8; 6] = kani::any();
    let name = ascii_string::<3>();
    let gc: [u8; 3] = kani::any();
    let oc: [i32; 4] = kani::any();
    let pt: [i32; 3] = kani::any();
    let col: [u8; 4] = kani::any();
    let tri: [u16; 3] = kani::any();
    let cp: i32 = kani::any();
    let nb = name.as_bytes();
    let (n0, n1, n2) = (nb[0], nb[1], nb[2]);
    let p = Smx {
        game_version: hdr[0], game_revision: hdr[1], smx_version: hdr[2], dimensions: hdr[3], resolution: hdr[4], vertex_colours: hdr[5],
        track: name,
        ground_colour: Rgb { r: gc[0], g: gc[1], b: gc[2] },
        objects: vec![Object {
            center: Point { x: oc[0], y: oc[1], z: oc[2] }, radius: oc[3],
            points: vec![ObjectPoint { xyz: Point { x: pt[0], y: pt[1], z: pt[2] }, colour: Argb { a: col[0], rgb: Rgb { r: col[1], g: col[2], b: col[3] } } }],
            triangles: vec![Triangle { a: tri[0], b: tri[1], c: tri[2] }],
        }],
        checkpoint_object_index: vec![cp],
    };
    let mut out = [0xAAu8; 128];
    let mut w = Cursor::new(&mut out[..]);
    let r = p.write(&mut w);
    let ok = r.is_ok();
    std::mem::forget(r);
    assert!(ok, "C17:SMX value refused by the writer");
    assert!(w.position() == 120, "C17:written SMX length (64 header + 48 object + 4 + 4)");
    // reference image, field by field (SMX format description)
    let mut e = [0u8; 120];
    e[0] = b'L'; e[1] = b'F'; e[2] = b'S'; e[3] = b'S'; e[4] = b'M'; e[5] = b'X';
    let mut k = 0; while k < 6 { e[6 + k] = hdr[k]; k += 1; }
    e[16] = n0; e[17] = n1; e[18] = n2;
    e[48] = gc[0]; e[49] = gc[1]; e[50] = gc[2];
    e[60] = 1;
    let mut k = 0; while k < 4 { let b = oc[k].to_le_bytes(); e[64 + 4 * k] = b[0]; e[65 + 4 * k] = b[1]; e[66 + 4 * k] = b[2]; e[67 + 4 * k] = b[3]; k += 1; }
    e[80] = 1; e[84] = 1;
    let mut k = 0; while k < 3 { let b = pt[k].to_le_bytes(); e[88 + 4 * k] = b[0]; e[89 + 4 * k] = b[1]; e[90 + 4 * k] = b[2]; e[91 + 4 * k] = b[3]; k += 1; }
    e[100] = col[0]; e[101] = col[1]; e[102] = col[2]; e[103] = col[3];
    let mut k = 0; while k < 3 { let b = tri[k].to_le_bytes(); e[104 + 2 * k] = b[0]; e[105 + 2 * k] = b[1]; k += 1; }
    e[112] = 1;
    let cb = cp.to_le_bytes(); e[116] = cb[0]; e[117] = cb[1]; e[118] = cb[2]; e[119] = cb[3];
    let i: usize = kani::any();
    kani::assume(i < 120);
    assert!(out[i] == e[i], "C17:written SMX byte differs from the documented layout");
    std::mem::forget(p);
}
