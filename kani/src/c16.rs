//! C16 — game version order/equality (parser/printer half is not applicable: DESIGN.md C16).
use insim_core::game_version::GameVersion;
use std::cmp::Ordering::*;

fn any_gv() -> GameVersion {
    let major: f32 = kani::any();
    // the parser accepts digits and dots only: it cannot yield NaN or -0.0 (argument from reading from_str)
    kani::assume(!major.is_nan() && major.to_bits() != (-0.0f32).to_bits());
    let minor: char = kani::any();
    let patch: Option<usize> = kani::any();
    GameVersion { major, minor, patch }
}

fn reference_cmp(a: &GameVersion, b: &GameVersion) -> std::cmp::Ordering {
    // (number, then letter, then revision; a missing revision counts as 0)
    if a.major < b.major { return Less; }
    if a.major > b.major { return Greater; }
    if (a.minor as u32) < (b.minor as u32) { return Less; }
    if (a.minor as u32) > (b.minor as u32) { return Greater; }
    let (pa, pb) = (a.patch.unwrap_or(0), b.patch.unwrap_or(0));
    if pa < pb { Less } else if pa > pb { Greater } else { Equal }
}

#[kani::proof]
fn c16_order_axioms() {
    let a = any_gv();
    let b = any_gv();
    let c = any_gv();
    assert!(a.cmp(&a) == Equal, "C16:reflexive");
    assert!((a.cmp(&b) == Equal) == (a == b), "C16:cmp Equal iff ==");
    assert!(a.cmp(&b) == b.cmp(&a).reverse(), "C16:antisymmetric");
    if a.cmp(&b) != Greater && b.cmp(&c) != Greater {
        assert!(a.cmp(&c) != Greater, "C16:transitive");
    }
    assert!(a.cmp(&b) == reference_cmp(&a, &b), "C16:ordered by number, letter, revision-or-0");
    assert!(a.partial_cmp(&b) == Some(a.cmp(&b)), "C16:partial_cmp agrees with cmp");
    kani::cover!(a.major == b.major && a.minor == b.minor && a.patch.is_none() && b.patch == Some(0), "missing revision equals revision 0");
    kani::cover!(a.cmp(&b) == Less && a.major == b.major && a.minor == b.minor, "ordered by revision only");
}

/// vacuity twin
#[kani::proof]
fn c16_twin_must_fail() {
    let a = any_gv();
    let b = any_gv();
    assert!(a.cmp(&b) != Less || a.major < b.major, "TWIN:order decided by the number alone");
}
