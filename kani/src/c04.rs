//! C04 — decoding untrusted bytes: the length rule (hand-written); packet bodies are generated.
use crate::common::*;
use bytes::BytesMut;
use insim::net::Mode;

/// `Mode::decode_length` for every (first byte, buffer length 0..=1100, mode). The function reads
/// only byte 0, so the remaining content is irrelevant (zeroed).
#[kani::proof]
#[kani::unwind(3)]
#[kani::stub(alloc::fmt::format, stub_format)]
fn c04_decode_length_rule() {
    let len: usize = kani::any();
    kani::assume(len <= 1100);
    let first: u8 = kani::any();
    let compressed: bool = kani::any();
    let mut buf = BytesMut::zeroed(len);
    if len > 0 {
        buf[0] = first;
    }
    let mode = if compressed { Mode::Compressed } else { Mode::Uncompressed };
    let announced = if compressed { first as usize * 4 } else { first as usize };
    let max = if compressed { 1020 } else { 255 };
    let r = mode.decode_length(&buf);
    assert!(buf.len() == len, "C04:length rule leaves the buffer untouched");
    match &r {
        Ok(None) => {
            assert!(len < 4 || len < announced, "C04:need-more-data only when the frame is incomplete");
            kani::cover!(len >= 4, "incomplete frame with a full header");
        }
        Ok(Some(k)) => {
            assert!(*k == announced, "C04:frame length is the announced length");
            assert!(*k <= len, "C04:never more than buffered");
            assert!(*k >= 4, "C04:a frame is at least 4 bytes");
            assert!(*k <= max, "C04:a frame never exceeds the mode's limit");
            kani::cover!(*k == 4, "smallest frame accepted");
            kani::cover!(*k == 1020, "largest frame accepted");
        }
        Err(_) => {
            assert!(len >= 4, "C04:framing error needs a header");
            assert!(announced > max || announced < 4, "C04:framing error only for an impossible announced length");
            kani::cover!(announced < 4, "undersized announcement refused");
        }
    }
    std::mem::forget(r);
    std::mem::forget(buf);
}

/// `Codec::decode` on a frame the packet reader cannot decode (type number 200 belongs to no kind;
/// the rest of the frame is symbolic) followed by a symbolic tail: an error is returned, exactly the
/// announced frame is removed and the tail - the next packet - is left intact.
macro_rules! decode_unknown {
    ($name:ident, $mode:expr, $size:expr) => {
        #[kani::proof]
        #[kani::unwind(10)]
        #[kani::stub(alloc::fmt::format, stub_format)]
        fn $name() {
            let b: [u8; 6] = kani::any();
            let mut buf = BytesMut::with_capacity(16);
            buf.extend_from_slice(&[$size, 200, b[0], b[1], b[2], b[3], b[4], b[5]]);
            let codec = insim::net::Codec::new($mode);
            let r = codec.decode(&mut buf);
            let err = r.is_err();
            std::mem::forget(r);
            assert!(err, "C04:undecodable frame must yield a decode error");
            assert!(buf.len() == 4, "C04:exactly the announced frame is removed");
            assert!(buf[0] == b[2] && buf[1] == b[3] && buf[2] == b[4] && buf[3] == b[5], "C04:bytes after the frame are left intact");
            std::mem::forget(buf);
        }
    };
}
decode_unknown!(c04_decode_unknown_type, Mode::Compressed, 1u8);
decode_unknown!(c04_decode_unknown_type_uncompressed, Mode::Uncompressed, 4u8);
