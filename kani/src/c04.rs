//! C04 — decoding untrusted bytes: the length rule (hand-written); packet bodies are generated.
use crate::common::*;
use bytes::BytesMut;
use insim::net::Mode;

/// `Mode::decode_length` for every (first byte, buffer length 0..=1100, mode). The function reads
/// only byte 0, so the remaining content is irrelevant (zeroed).
#[kani::proof]
#[kani::unwind(3)]
#[kani::stub(alloc::fmt::format, stub_format)]
fn c04_decode_length_rule() {
    let len: usize = kani::any();
    kani::assume(len <= 1100);
    let first: u8 = kani::any();
    let compressed: bool = kani::any();
    let mut buf = BytesMut::zeroed(len);
    if len > 0 {
        buf[0] = first;
    }
    let mode = if compressed { Mode::Compressed } else { Mode::Uncompressed };
    let announced = if compressed { first as usize * 4 } else { first as usize };
    let max = if compressed { 1020 } else { 255 };
    let r = mode.decode_length(&buf);
    assert!(buf.len() == len, "C04:length rule leaves the buffer untouched");
    match &r {
        Ok(None) => {
            assert!(len < 4 || len < announced, "C04:need-more-data only when the frame is incomplete");
            kani::cover!(len >= 4, "incomplete frame with a full header");
        }
        Ok(Some(k)) => {
            assert!(*k == announced, "C04:frame length is the announced length");
            assert!(*k <= len, "C04:never more than buffered");
            assert!(*k >= 4, "C04:a frame is at least 4 bytes");
            assert!(*k <= max, "C04:a frame never exceeds the mode's limit");
            kani::cover!(*k == 4, "smallest frame accepted");
            kani::cover!(*k == 1020, "largest frame accepted");
        }
        Err(_) => {
            assert!(len >= 4, "C04:framing error needs a header");
            assert!(announced > max || announced < 4, "C04:framing error only for an impossible announced length");
            kani::cover!(announced < 4, "undersized announcement refused");
        }
    }
    std::mem::forget(r);
    std::mem::forget(buf);
}
