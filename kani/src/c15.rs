//! C15 — time and race-length conversions are exact, or refused - never wrong.
use crate::common::*;
use binrw::{BinRead, BinWrite, Endian};
use insim::identifiers::RequestId;
use insim::insim::{RaceLaps, Small, SmallType};
use std::io::Cursor;
use std::time::Duration;

/// all 256 race-length bytes: decode, re-encode
#[kani::proof]
#[kani::unwind(3)]
fn c15_racelaps_bytes() {
    let b: u8 = kani::any();
    let r = RaceLaps::from(b);
    let b2 = u8::from(r);
    if b == 0 || b > 238 {
        assert!(matches!(r, RaceLaps::Practice), "C15:0 and 239..=255 are practice");
        assert!(b2 == 0, "C15:practice encodes as 0");
    } else {
        assert!(b2 == b, "C15:race-length byte round-trips");
        match r {
            RaceLaps::Laps(n) => {
                assert!(b <= 190, "C15:1..=190 are lap counts");
                let expect = if b < 100 { b as usize } else { (b as usize - 100) * 10 + 100 };
                assert!(n == expect, "C15:lap count as specified");
            }
            RaceLaps::Hours(h) => {
                assert!(b >= 191 && h == b as usize - 190, "C15:191..=238 are 1..=48 hours");
            }
            _ => assert!(false, "C15:valid byte is not practice"),
        }
    }
    kani::cover!(b == 190, "1000 laps");
    kani::cover!(b == 238, "48 hours");
}

/// every lap count (usize): encodes to a byte that decodes to the same count rounded down to the
/// field's resolution, or to practice when out of range - never to another value
#[kani::proof]
#[kani::unwind(3)]
fn c15_racelaps_laps_encode() {
    let n: usize = kani::any();
    let b = u8::from(RaceLaps::Laps(n));
    match RaceLaps::from(b) {
        RaceLaps::Laps(m) => {
            assert!(n >= 1 && n <= 1000, "C15:out-of-range lap count must fall back to practice");
            if n < 100 {
                assert!(m == n, "C15:1..=99 laps exact");
            } else {
                assert!(m <= n && n - m < 10 && m % 10 == 0, "C15:100..=1000 laps rounded down to tens");
            }
        }
        RaceLaps::Practice => assert!(n == 0 || n > 1000, "C15:in-range lap count must not become practice"),
        _ => assert!(false, "C15:lap count decoded as hours"),
    }
    kani::cover!(n == 1000, "1000 laps");
    kani::cover!(n > 1000, "too many laps");
}

/// every hour count (usize)
#[kani::proof]
#[kani::unwind(3)]
fn c15_racelaps_hours_encode() {
    let h: usize = kani::any();
    let b = u8::from(RaceLaps::Hours(h));
    match RaceLaps::from(b) {
        RaceLaps::Hours(x) => {
            assert!(x == h, "C15:hours decoded as a different number of hours");
            assert!(h >= 1 && h <= 48, "C15:out-of-range hours must fall back to practice");
        }
        RaceLaps::Practice => assert!(h == 0 || h > 48, "C15:in-range hours must not become practice"),
        _ => assert!(false, "C15:hours decoded as a lap count"),
    }
    kani::cover!(h == 48, "48 hours");
    kani::cover!(h == 0, "0 hours");
    kani::cover!(h == 66, "66 hours (190 + 66 wraps a byte)");
}

// The duration helpers are exercised through the packet that uses each instantiation (public API, so
// the harness does not depend on the helpers' generic signature):
//   (u16, 1 ms)  IS_CPP.Time  body offset 26      (u16, 10 ms) IS_HLV.Time  body offset 4
//   (u32, 1 ms)  IS_PSF.STime body offset 2       (u32, 10 ms) IS_CSC.Time  body offset 6
macro_rules! duration_harnesses {
    ($wire:ident, $enc:ident, $huge:ident, $ty:ty, $field:ident, $off:expr, $size:expr, $t:ty, $scale:expr, $n:expr) => {
        /// every wire value of this field decodes to a duration that re-encodes to it
        #[kani::proof]
        #[kani::unwind(34)]
        #[kani::stub(alloc::fmt::format, stub_format)]
        fn $wire() {
            let w: $t = kani::any();
            let mut img = [0u8; $size];
            let wb = w.to_le_bytes();
            let mut i = 0;
            while i < $n { img[$off + i] = wb[i]; i += 1; }
            let mut c = Cursor::new(&img[..]);
            let r = <$ty>::read_le(&mut c);
            match &r {
                Ok(p) => {
                    assert!(p.$field == Duration::from_millis(w as u64 * ($scale as u64)), "C15:wire value scaled to milliseconds");
                    let mut out = [0xAAu8; $size];
                    let mut wr = Cursor::new(&mut out[..]);
                    let e = p.write_le(&mut wr);
                    assert!(e.is_ok(), "C15:decoded duration re-encodes");
                    let mut i = 0;
                    while i < $n { assert!(out[$off + i] == wb[i], "C15:time field round-trips"); i += 1; }
                    std::mem::forget(e);
                }
                Err(_) => assert!(false, "C15:every wire value decodes"),
            }
            kani::cover!(w == <$t>::MAX, "largest wire value");
            std::mem::forget(r);
        }

        /// an arbitrary duration within 2^34 s is rounded down to the field's resolution, or refused
        #[kani::proof]
        #[kani::unwind(34)]
        #[kani::stub(alloc::fmt::format, stub_format)]
        fn $enc() {
            let secs: u64 = kani::any();
            let nanos: u32 = kani::any();
            kani::assume(secs <= (1u64 << 34) && nanos < 1_000_000_000);
            let ms: u128 = (secs as u128) * 1000 + (nanos / 1_000_000) as u128;
            let mut p = <$ty>::default();
            p.$field = Duration::new(secs, nanos);
            let mut out = [0xAAu8; $size];
            let mut wr = Cursor::new(&mut out[..]);
            let r = p.write_le(&mut wr);
            match &r {
                Ok(()) => {
                    let mut wb = [0u8; $n];
                    let mut i = 0;
                    while i < $n { wb[i] = out[$off + i]; i += 1; }
                    let w = <$t>::from_le_bytes(wb) as u128;
                    assert!(w * ($scale as u128) <= ms && ms < (w + 1) * ($scale as u128), "C15:duration rounded down to the field resolution");
                    kani::cover!(w == <$t>::MAX as u128, "largest representable duration");
                }
                Err(_) => {
                    assert!(ms >= (<$t>::MAX as u128 + 1) * ($scale as u128), "C15:representable duration refused");
                    kani::cover!(true, "out-of-range duration refused");
                }
            }
            std::mem::forget(r);
            std::mem::forget(p);
        }

        /// durations far beyond the field's range (up to Duration::MAX: millisecond counts that do not
        /// fit 64 bits) must be refused, never written as some in-range value
        #[kani::proof]
        #[kani::unwind(34)]
        #[kani::stub(alloc::fmt::format, stub_format)]
        fn $huge() {
            let secs: u64 = kani::any();
            let nanos: u32 = kani::any();
            kani::assume(secs > (1u64 << 34) && nanos < 1_000_000_000);
            let mut p = <$ty>::default();
            p.$field = Duration::new(secs, nanos);
            let mut out = [0xAAu8; $size];
            let mut wr = Cursor::new(&mut out[..]);
            let r = p.write_le(&mut wr);
            let refused = r.is_err();
            std::mem::forget(r);
            std::mem::forget(p);
            assert!(refused, "C15:duration beyond the field range was written");
            kani::cover!(secs == u64::MAX, "Duration::MAX seconds");
        }
    };
}
duration_harnesses!(c15_duration_u16_s1_wire, c15_duration_u16_s1_encode, c15_duration_u16_s1_huge, insim::insim::Cpp, time, 26, 30, u16, 1, 2);
duration_harnesses!(c15_duration_u16_s10_wire, c15_duration_u16_s10_encode, c15_duration_u16_s10_huge, insim::insim::Hlv, time, 4, 14, u16, 10, 2);
duration_harnesses!(c15_duration_u32_s1_wire, c15_duration_u32_s1_encode, c15_duration_u32_s1_huge, insim::insim::Psf, stime, 2, 10, u32, 1, 4);
duration_harnesses!(c15_duration_u32_s10_wire, c15_duration_u32_s10_encode, c15_duration_u32_s10_huge, insim::insim::Csc, time, 6, 18, u32, 10, 4);

fn small_scale(discrim: u8) -> u128 {
    // SSP, SSG, STP, RTP are in hundredths of a second; NLI in milliseconds (InSim.txt)
    if discrim == 7 { 1 } else { 10 }
}

/// SMALL timed sub-types: every 32-bit value of the given sub-type decodes to a duration that
/// re-encodes to it (one harness per sub-type: the 128-bit millisecond arithmetic is what costs)
macro_rules! small_wire {
    ($name:ident, $discrim:expr) => {
        #[kani::proof]
        #[kani::unwind(8)]
        #[kani::stub(alloc::fmt::format, stub_format)]
        fn $name() {
            let discrim: u8 = $discrim;
            let uval: u32 = kani::any();
            let u = uval.to_le_bytes();
            let img = [0u8, discrim, u[0], u[1], u[2], u[3]];
            let mut c = Cursor::new(&img[..]);
            let r = Small::read_le(&mut c);
            match &r {
                Ok(p) => {
                    let d = match &p.subt {
                        SmallType::Ssp(d) | SmallType::Ssg(d) | SmallType::Stp(d) | SmallType::Rtp(d) | SmallType::Nli(d) => *d,
                        _ => { assert!(false, "C15:timed sub-type decoded as another kind"); Duration::ZERO }
                    };
                    assert!(d == Duration::from_millis(uval as u64 * small_scale(discrim) as u64), "C15:SMALL value scaled to milliseconds");
                    let mut out = [0xAAu8; 6];
                    let mut w = Cursor::new(&mut out[..]);
                    let wr = p.write_le(&mut w);
                    assert!(wr.is_ok(), "C15:decoded SMALL re-encodes");
                    assert!(out[1] == discrim && out[2] == u[0] && out[3] == u[1] && out[4] == u[2] && out[5] == u[3],
                        "C15:SMALL time value round-trips");
                    std::mem::forget(wr);
                }
                Err(_) => assert!(false, "C15:timed SMALL decodes"),
            }
            kani::cover!(uval == u32::MAX, "largest wire value");
            std::mem::forget(r);
        }
    };
}
small_wire!(c15_small_ssp_wire, 1);
small_wire!(c15_small_ssg_wire, 2);
small_wire!(c15_small_stp_wire, 5);
small_wire!(c15_small_rtp_wire, 6);
small_wire!(c15_small_nli_wire, 7);

fn small_timed(k: u8, d: Duration) -> SmallType {
    match k { 0 => SmallType::Ssp(d), 1 => SmallType::Ssg(d), 2 => SmallType::Stp(d), 3 => SmallType::Rtp(d), _ => SmallType::Nli(d) }
}

/// SMALL timed sub-types: an arbitrary duration (up to Duration::MAX) is rounded down to the
/// resolution, or refused - one harness per sub-type
macro_rules! small_encode {
    ($name:ident, $k:expr) => {
        #[kani::proof]
        #[kani::unwind(8)]
        #[kani::stub(alloc::fmt::format, stub_format)]
        fn $name() {
            let secs: u64 = kani::any();
            let nanos: u32 = kani::any();
            kani::assume(nanos < 1_000_000_000);
            let d = Duration::new(secs, nanos);
            let k: u8 = $k;
            let scale: u128 = if k == 4 { 1 } else { 10 };
            let p = Small { reqi: RequestId(0), subt: small_timed(k, d) };
            let mut out = [0xAAu8; 6];
            let mut w = Cursor::new(&mut out[..]);
            let r = p.write_le(&mut w);
            match &r {
                Ok(()) => {
                    kani::assume(secs <= (1u64 << 34)); // in-range reasoning only; beyond it the writer must refuse (below)
                    let ms: u128 = (secs as u128) * 1000 + (nanos / 1_000_000) as u128;
                    let wv = u32::from_le_bytes([out[2], out[3], out[4], out[5]]) as u128;
                    assert!(wv * scale <= ms && ms < (wv + 1) * scale, "C15:SMALL duration rounded down to the field resolution");
                }
                Err(_) => {
                    if secs <= (1u64 << 34) {
                        let ms: u128 = (secs as u128) * 1000 + (nanos / 1_000_000) as u128;
                        assert!(ms >= (u32::MAX as u128 + 1) * scale, "C15:representable SMALL duration refused");
                    }
                    kani::cover!(true, "out-of-range SMALL duration refused");
                }
            }
            if secs > (1u64 << 34) { assert!(r.is_err(), "C15:SMALL duration beyond the field range was written"); }
            std::mem::forget(r);
            std::mem::forget(p);
        }
    };
}
small_encode!(c15_small_ssp_encode, 0);
small_encode!(c15_small_ssg_encode, 1);
small_encode!(c15_small_stp_encode, 2);
small_encode!(c15_small_rtp_encode, 3);
small_encode!(c15_small_nli_encode, 4);
