//! C13 — vehicle identifiers map one-to-one onto their 4 wire bytes.
use crate::common::*;
use binrw::{BinRead, BinWrite};
use insim_core::vehicle::Vehicle;
use std::io::Cursor;

fn shape_builtin(b: &[u8; 4]) -> bool {
    // written out independently of the code under test: three ASCII alphanumerics then NUL
    let an = |c: u8| (c >= b'0' && c <= b'9') || (c >= b'A' && c <= b'Z') || (c >= b'a' && c <= b'z');
    an(b[0]) && an(b[1]) && an(b[2]) && b[3] == 0
}

/// All 2^32 wire values: decode rule, error rule, mod rule, byte-exact re-encode.
#[kani::proof]
#[kani::unwind(8)]
#[kani::stub(alloc::fmt::format, stub_format)]
fn c13_vehicle_wire() {
    let b: [u8; 4] = kani::any();
    let mut c = Cursor::new(&b[..]);
    let r = Vehicle::read_le(&mut c);
    let builtin = shape_builtin(&b);
    match &r {
        Ok(v) => {
            assert!(c.position() == 4, "C13:consumes 4 bytes");
            let mut out = [0xAAu8; 4];
            let mut w = Cursor::new(&mut out[..]);
            let wr = v.write_le(&mut w);
            assert!(wr.is_ok(), "C13:re-encode succeeds");
            assert!(w.position() == 4, "C13:re-encode is 4 bytes");
            assert!(out[0] == b[0] && out[1] == b[1] && out[2] == b[2] && out[3] == b[3], "C13:re-encode identical");
            if b[0] == 0 && b[1] == 0 && b[2] == 0 && b[3] == 0 {
                assert!(matches!(v, Vehicle::Unknown), "C13:zero is unknown");
                assert!(!v.is_mod(), "C13:unknown is not a mod");
            } else if builtin {
                assert!(!v.is_mod() && v.is_builtin(), "C13:builtin shape never a mod");
                assert!(!matches!(v, Vehicle::Unknown), "C13:builtin shape never unknown");
            } else {
                assert!(matches!(v, Vehicle::Mod(m) if *m == u32::from_le_bytes(b)), "C13:mod id is the LE u32");
                assert!(v.is_mod() && !v.is_builtin(), "C13:mod classified as mod");
            }
            kani::cover!(builtin, "builtin decoded");
            kani::cover!(v.is_mod(), "mod decoded");
            kani::cover!(matches!(v, Vehicle::Unknown), "unknown decoded");
        }
        Err(_) => {
            assert!(builtin, "C13:error only for builtin-shaped names");
            kani::cover!(true, "unrecognised builtin-shaped name rejected");
        }
    }
    std::mem::forget(r);
}

/// Vacuity twin of `c13_vehicle_wire`: the final assertion is deliberately wrong and must fail.
#[kani::proof]
#[kani::unwind(8)]
#[kani::stub(alloc::fmt::format, stub_format)]
fn c13_twin_must_fail() {
    let b: [u8; 4] = kani::any();
    let mut c = Cursor::new(&b[..]);
    let r = Vehicle::read_le(&mut c);
    let is_mod = matches!(&r, Ok(v) if v.is_mod());
    std::mem::forget(r);
    assert!(!is_mod, "TWIN:no wire value is a mod");
}

/// Every built-in (variant list generated from the enum declaration in /repo): printed name ==
/// wire name, wire name decodes back to the same variant, never classified as a mod.
#[kani::proof]
#[kani::unwind(8)]
#[kani::stub(alloc::fmt::format, stub_format)]
fn c13_builtin_names() {
    let i: usize = kani::any();
    kani::assume(i < crate::gen_tables::VEHICLE_BUILTIN_COUNT);
    let v = crate::gen_tables::vehicle_builtin_by_index(i);
    assert!(v.is_builtin() && !v.is_mod(), "C13:builtin classified as builtin");
    let mut out = [0xAAu8; 4];
    let mut w = Cursor::new(&mut out[..]);
    assert!(v.write_le(&mut w).is_ok(), "C13:builtin encodes");
    assert!(shape_builtin(&out), "C13:builtin wire form is 3 alphanumerics + NUL");
    let mut c = Cursor::new(&out[..]);
    let r = Vehicle::read_le(&mut c);
    assert!(matches!(&r, Ok(x) if *x == v), "C13:builtin wire form decodes to itself");
    std::mem::forget(r);
    let s = v.to_string();
    let sb = s.as_bytes();
    assert!(sb.len() == 3 && sb[0] == out[0] && sb[1] == out[1] && sb[2] == out[2], "C13:printed name equals wire name");
    kani::cover!(i == crate::gen_tables::VEHICLE_BUILTIN_COUNT - 1, "last builtin reached");
    std::mem::forget(s);
}
