//! C07 — keep-alive decision function (the connection's use of it is outside the claim: DESIGN.md C07).
use crate::common::*;
use crate::gen_tables::*;
use insim::identifiers::RequestId;
use insim::insim::{Tiny, TinyType};
use insim::Packet;

/// Every TINY (256 request ids x every sub-type declared in the source): a reply is produced iff
/// sub-type NONE and request id 0, and the reply is exactly TINY_NONE with request id 0.
#[kani::proof]
#[kani::unwind(4)]
#[kani::stub(alloc::fmt::format, stub_format)]
fn c07_pong_every_tiny() {
    let reqi: u8 = kani::any();
    let si: usize = kani::any();
    kani::assume(si < TINY_TYPE_COUNT);
    let subt = tiny_type_by_index(si);
    let is_none = matches!(subt, TinyType::None);
    let t = Tiny { reqi: RequestId(reqi), subt };
    assert!(t.is_keepalive() == (is_none && reqi == 0), "C07:is_keepalive iff TINY_NONE with request id 0");
    let p = Packet::Tiny(t);
    let r = p.maybe_pong();
    match &r {
        Some(Packet::Tiny(q)) => {
            assert!(is_none && reqi == 0, "C07:reply only to TINY_NONE with request id 0");
            assert!(q.reqi.0 == 0 && matches!(q.subt, TinyType::None), "C07:reply is TINY_NONE reqi 0");
            kani::cover!(true, "keep-alive answered");
        }
        Some(_) => assert!(false, "C07:reply is a TINY"),
        None => {
            assert!(!(is_none && reqi == 0), "C07:keep-alive must be answered");
            kani::cover!(is_none && reqi != 0, "TINY_NONE with non-zero request id not answered");
            kani::cover!(!is_none && reqi == 0, "other sub-type with request id 0 not answered");
        }
    }
    std::mem::forget(r);
    std::mem::forget(p);
}

/// Every other packet kind (variant list generated from insim/src/packet.rs): never answered.
#[kani::proof]
#[kani::unwind(42)]
#[kani::stub(alloc::fmt::format, stub_format)]
#[kani::stub(std::hash::RandomState::new, stub_random_state)]
fn c07_pong_other_kinds() {
    let i: usize = kani::any();
    kani::assume(i < PACKET_KIND_COUNT && i != TINY_INDEX);
    let p = packet_default_by_index(i);
    let r = p.maybe_pong();
    let none = r.is_none();
    std::mem::forget(r);
    std::mem::forget(p);
    assert!(none, "C07:no reply to any non-TINY packet");
    kani::cover!(i == PACKET_KIND_COUNT - 1, "last kind reached");
}
