//! C11 — text fields occupy their exact wire width and terminate correctly.
//! Text LENGTH is concrete per harness instance (a symbolic length does not close, DESIGN.md C11);
//! the text CONTENT is symbolic ASCII, the codepage pass is the ASCII model.
use crate::common::*;
use binrw::{BinRead, BinWrite, Endian};
use insim_core::string::{binrw_parse_codepage_string, binrw_parse_codepage_string_until_eof, binrw_write_codepage_string};
use std::io::Cursor;

/// fixed-width writer: exactly N bytes = text truncated to N, NUL padded
macro_rules! fixed_write {
    ($name:ident, $n:expr, $len:expr) => {
        #[kani::proof]
        #[kani::unwind(490)]
        #[kani::stub(alloc::fmt::format, stub_format)]
        #[kani::stub(insim_core::string::codepages::to_lossy_bytes, stub_to_lossy_bytes)]
        fn $name() {
            let s = ascii_string::<{ $len }>();
            let mut out = [0xAAu8; $n + 8];
            let mut w = Cursor::new(&mut out[..]);
            let r = binrw_write_codepage_string::<{ $n }, _>(&s, &mut w, Endian::Little, (false, 0));
            assert!(r.is_ok(), "C11:fixed-width text refused");
            assert!(w.position() == $n, "C11:fixed-width field does not occupy exactly its N bytes");
            let i: usize = kani::any();
            kani::assume(i < $n);
            let sb = s.as_bytes();
            if i < $len { assert!(out[i] == sb[i], "C11:fixed-width text bytes altered"); } else { assert!(out[i] == 0, "C11:fixed-width field not NUL padded"); }
            kani::cover!(true, "written");
            std::mem::forget(r);
            std::mem::forget(s);
        }
    };
}
fixed_write!(c11_fixed6_len0, 6, 0);
fixed_write!(c11_fixed6_len5, 6, 5);
fixed_write!(c11_fixed6_len6, 6, 6);
fixed_write!(c11_fixed6_len7, 6, 7);
fixed_write!(c11_fixed6_len12, 6, 12);
fixed_write!(c11_fixed8_len0, 8, 0);
fixed_write!(c11_fixed8_len1, 8, 1);
fixed_write!(c11_fixed8_len7, 8, 7);
fixed_write!(c11_fixed8_len8, 8, 8);
fixed_write!(c11_fixed8_len9, 8, 9);
fixed_write!(c11_fixed8_len16, 8, 16);
fixed_write!(c11_fixed16_len15, 16, 15);
fixed_write!(c11_fixed16_len16, 16, 16);
fixed_write!(c11_fixed16_len17, 16, 17);
fixed_write!(c11_fixed24_len23, 24, 23);
fixed_write!(c11_fixed24_len24, 24, 24);
fixed_write!(c11_fixed24_len25, 24, 25);
fixed_write!(c11_fixed24_len48, 24, 48);
fixed_write!(c11_fixed32_len31, 32, 31);
fixed_write!(c11_fixed32_len33, 32, 33);
fixed_write!(c11_fixed64_len63, 64, 63);
fixed_write!(c11_fixed64_len65, 64, 65);
fixed_write!(c11_fixed96_len95, 96, 95);
fixed_write!(c11_fixed96_len97, 96, 97);
fixed_write!(c11_fixed128_len127, 128, 127);
fixed_write!(c11_fixed128_len129, 128, 129);

/// variable-width writer (align 4): NUL padded to a multiple of 4, at most MAX bytes
macro_rules! var_write {
    ($name:ident, $max:expr, $len:expr) => {
        #[kani::proof]
        #[kani::unwind(490)]
        #[kani::stub(alloc::fmt::format, stub_format)]
        #[kani::stub(insim_core::string::codepages::to_lossy_bytes, stub_to_lossy_bytes)]
        fn $name() {
            let s = ascii_string::<{ $len }>();
            let mut out = [0xAAu8; $max + 8];
            let mut w = Cursor::new(&mut out[..]);
            let r = binrw_write_codepage_string::<{ $max }, _>(&s, &mut w, Endian::Little, (false, 4));
            assert!(r.is_ok(), "C11:variable-width text refused");
            let n = w.position() as usize;
            assert!(n % 4 == 0, "C11:variable-width field is not a multiple of 4 bytes");
            assert!(n <= $max, "C11:variable-width field exceeds its maximum");
            assert!(n >= if $len < $max { $len } else { $max }, "C11:variable-width text cut short");
            assert!(n < $len + 4 || $len >= $max, "C11:variable-width field over-padded");
            let i: usize = kani::any();
            kani::assume(i < n);
            let sb = s.as_bytes();
            if i < $len { assert!(out[i] == sb[i], "C11:variable-width text bytes altered"); } else { assert!(out[i] == 0, "C11:variable-width field not NUL padded"); }
            std::mem::forget(r);
            std::mem::forget(s);
        }
    };
}
var_write!(c11_var64_len0, 64, 0);
var_write!(c11_var64_len1, 64, 1);
var_write!(c11_var64_len3, 64, 3);
var_write!(c11_var64_len4, 64, 4);
var_write!(c11_var64_len5, 64, 5);
var_write!(c11_var64_len63, 64, 63);
var_write!(c11_var64_len64, 64, 64);
var_write!(c11_var64_len65, 64, 65);
var_write!(c11_var128_len127, 128, 127);
var_write!(c11_var128_len130, 128, 130);
var_write!(c11_var240_len239, 240, 239);
var_write!(c11_var240_len241, 240, 241);
var_write!(c11_var240_len253, 240, 253);
var_write!(c11_var240_len256, 240, 256);
var_write!(c11_var240_len480, 240, 480);
var_write!(c11_var128_len253, 128, 253);
var_write!(c11_var128_len256, 128, 256);

/// the free-text packets sent to LFS end in a NUL byte (MST, MSX, MSL: fixed width; MTC: variable)
macro_rules! terminated {
    ($name:ident, $ty:ty, $field:ident, $len:expr, $size:expr) => {
        #[kani::proof]
        #[kani::unwind(490)]
        #[kani::stub(alloc::fmt::format, stub_format)]
        #[kani::stub(insim_core::string::codepages::to_lossy_bytes, stub_to_lossy_bytes)]
        fn $name() {
            let mut p = <$ty>::default();
            p.$field = ascii_string::<{ $len }>();
            let mut out = [0xAAu8; $size + 8];
            let mut w = Cursor::new(&mut out[..]);
            let r = p.write_le(&mut w);
            assert!(r.is_ok(), "C11:free-text packet refused");
            let n = w.position() as usize;
            assert!(n >= 1 && out[n - 1] == 0, "C11:free-text packet sent to LFS does not end in NUL");
            assert!((n + 2) % 4 == 0, "C11:free-text packet is not a multiple of 4 bytes");
            std::mem::forget(r);
            std::mem::forget(p);
        }
    };
}
terminated!(c11_mst_len63, insim::insim::Mst, msg, 63, 66);
terminated!(c11_mst_len64, insim::insim::Mst, msg, 64, 66);
terminated!(c11_mst_len70, insim::insim::Mst, msg, 70, 66);
terminated!(c11_msx_len95, insim::insim::Msx, msg, 95, 98);
terminated!(c11_msx_len96, insim::insim::Msx, msg, 96, 98);
terminated!(c11_msl_len127, insim::insim::Msl, msg, 127, 130);
terminated!(c11_msl_len128, insim::insim::Msl, msg, 128, 130);
terminated!(c11_mtc_len3, insim::insim::Mtc, text, 3, 134);
terminated!(c11_mtc_len4, insim::insim::Mtc, text, 4, 134);
terminated!(c11_mtc_len127, insim::insim::Mtc, text, 127, 134);
terminated!(c11_mtc_len128, insim::insim::Mtc, text, 128, 134);

/// fixed-width reader: consumes exactly N bytes and returns the bytes before the first NUL
macro_rules! fixed_read {
    ($name:ident, $n:expr) => {
        #[kani::proof]
        #[kani::unwind(490)]
        #[kani::stub(alloc::fmt::format, stub_format)]
        #[kani::stub(insim_core::string::codepages::to_lossy_string, stub_to_lossy_string)]
        fn $name() {
            let img: [u8; $n + 4] = kani::any();
            let mut c = Cursor::new(&img[..]);
            let r = binrw_parse_codepage_string::<{ $n }, _>(&mut c, Endian::Little, (false,));
            match &r {
                Ok(s) => {
                    assert!(c.position() == $n, "C11:fixed-width reader does not consume exactly N bytes");
                    let sb = s.as_bytes();
                    assert!(sb.len() <= $n, "C11:decoded text longer than the field");
                    kani::cover!(sb.len() == $n, "unterminated full-width text");
                    kani::cover!(sb.len() == 0, "empty text");
                    if sb.len() < $n { assert!(img[sb.len()] == 0, "C11:decoded text ends before the first NUL"); }
                    let i: usize = kani::any();
                    kani::assume(i < sb.len());
                    assert!(sb[i] == img[i] && img[i] != 0, "C11:decoding does not stop at the first NUL");
                }
                Err(_) => assert!(false, "C11:fixed-width text rejected"),
            }
            std::mem::forget(r);
        }
    };
}
fixed_read!(c11_read6, 6);
fixed_read!(c11_read8, 8);
fixed_read!(c11_read16, 16);
fixed_read!(c11_read24, 24);
fixed_read!(c11_read32, 32);
fixed_read!(c11_read64, 64);
