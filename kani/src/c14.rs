//! C14 — track table is coherent: code, wire bytes, flags and licence agree.
use crate::common::*;
use crate::gen_tables::*;
use binrw::{BinRead, BinWrite};
use insim_core::track::Track;
use std::io::Cursor;

/// all 2^48 six-byte values: whatever decodes re-encodes to the identical bytes (so no two byte
/// strings decode to one configuration), and the accessors agree with the wire bytes
#[kani::proof]
#[kani::unwind(8)]
#[kani::stub(alloc::fmt::format, stub_format)]
fn c14_wire_to_track() {
    let b: [u8; 6] = kani::any();
    let mut c = Cursor::new(&b[..]);
    let r = Track::read_le(&mut c);
    if let Ok(t) = &r {
        let mut out = [0xAAu8; 6];
        let mut w = Cursor::new(&mut out[..]);
        assert!(t.write_le(&mut w).is_ok(), "C14:decoded track re-encodes");
        let i: usize = kani::any();
        kani::assume(i < 6);
        assert!(out[i] == b[i], "C14:re-encoded bytes identical");
        // shape: letter letter digit [digit] [letter], NUL padded
        assert!(b[0].is_ascii_uppercase() && b[1].is_ascii_uppercase() && b[2].is_ascii_digit(), "C14:wire form shape");
        assert!(b[5] == 0, "C14:wire form is NUL terminated");
        let code = t.code();
        let cb = code.as_bytes();
        assert!(cb.len() >= 3 && cb.len() <= 5, "C14:code length");
        if i < cb.len() { assert!(b[i] == cb[i], "C14:wire form is the short code"); } else { assert!(b[i] == 0, "C14:wire form NUL padded"); }
        let last = cb[cb.len() - 1];
        assert!(t.is_reverse() == (last == b'R' || last == b'Y'), "C14:reversed iff code ends in R or Y");
        assert!(t.is_open() == (last == b'X' || last == b'Y'), "C14:open iff code ends in X or Y");
        if t.is_open() {
            assert!(t.distance_mile().is_none(), "C14:open configuration has no lap distance (miles)");
            assert!(t.distance_km().is_none(), "C14:open configuration has no lap distance (km)");
        }
        kani::cover!(t.is_open() && t.is_reverse(), "a Y configuration decoded");
        kani::cover!(cb.len() == 5, "five-character code decoded");
        std::mem::forget(code);
    }
    std::mem::forget(r);
}

/// every configuration (index -> variant function generated from the enum declaration)
#[kani::proof]
#[kani::unwind(8)]
#[kani::stub(alloc::fmt::format, stub_format)]
fn c14_track_to_wire() {
    let i: usize = kani::any();
    kani::assume(i < TRACK_COUNT);
    let t = track_by_index(i);
    let mut out = [0xAAu8; 6];
    let mut w = Cursor::new(&mut out[..]);
    assert!(t.write_le(&mut w).is_ok(), "C14:every configuration encodes");
    assert!(w.position() == 6, "C14:wire form is 6 bytes");
    let code = t.code();
    let cb = code.as_bytes();
    assert!(cb.len() >= 3 && cb.len() <= 5, "C14:code length");
    let j: usize = kani::any();
    kani::assume(j < 6);
    if j < cb.len() { assert!(out[j] == cb[j], "C14:wire form is the short code"); } else { assert!(out[j] == 0, "C14:wire form NUL padded"); }
    let mut c = Cursor::new(&out[..]);
    let r = Track::read_le(&mut c);
    assert!(matches!(&r, Ok(x) if *x == t), "C14:wire form decodes to the same configuration");
    std::mem::forget(r);
    let last = cb[cb.len() - 1];
    assert!(t.is_reverse() == (last == b'R' || last == b'Y'), "C14:reversed iff code ends in R or Y");
    assert!(t.is_open() == (last == b'X' || last == b'Y'), "C14:open iff code ends in X or Y");
    if t.is_open() {
        assert!(t.distance_mile().is_none() && t.distance_km().is_none(), "C14:open configuration has no lap distance");
    }
    let first = track_by_index(track_area_first_index(i));
    assert!(t.license() == first.license(), "C14:one licence per track area");
    kani::cover!(i == TRACK_COUNT - 1, "last configuration reached");
    std::mem::forget(code);
}

/// vacuity twin
#[kani::proof]
#[kani::unwind(8)]
#[kani::stub(alloc::fmt::format, stub_format)]
fn c14_twin_must_fail() {
    let b: [u8; 6] = kani::any();
    let mut c = Cursor::new(&b[..]);
    let r = Track::read_le(&mut c);
    let ok = r.is_ok();
    std::mem::forget(r);
    assert!(!ok || b[3] == 0, "TWIN:only three-character codes decode");
}
