//! C18 — the handshake carries exactly the configured connection options.
use crate::common::*;
use bytes::BytesMut;
use insim::identifiers::RequestId;
use insim::insim::{Isi, IsiFlags};
use insim::net::blocking_impl::Framed;
use insim::net::{Codec, Mode};
use insim::{Builder, Packet};
use std::io::{Read, Write};
use std::net::SocketAddr;
use std::time::Duration;

fn step(b: Builder, which: u8, on: bool, model: &mut u16) -> Builder {
    // the bit each setter is documented to control, from the InSim.txt ISF_ table
    let (b, bit) = match which {
        0 => (b.isi_flag_local(on), 4u16),
        1 => (b.isi_flag_mso_cols(on), 8),
        2 => (b.isi_flag_nlp(on), 16),
        3 => (b.isi_flag_mci(on), 32),
        4 => (b.isi_flag_con(on), 64),
        5 => (b.isi_flag_obh(on), 128),
        6 => (b.isi_flag_hlv(on), 256),
        7 => (b.isi_flag_axm_load(on), 512),
        8 => (b.isi_flag_axm_edit(on), 1024),
        _ => (b.isi_flag_req_join(on), 2048),
    };
    if on { *model |= bit; } else { *model &= !bit; }
    b
}

/// A symbolic builder program: wholesale flag replacement (optional), then four setter calls with
/// symbolic choice of setter and value (so any setter may repeat and override), another optional
/// wholesale replacement in between; prefix / interval / request id present or absent;
/// tcp / udp with and without local address / relay.
#[kani::proof]
#[kani::unwind(20)]
#[kani::stub(alloc::fmt::format, stub_format)]
fn c18_builder_program() {
    let mut b = Builder::default();
    let mut model: u16 = 0;
    if kani::any() {
        let f: u16 = kani::any();
        let fl = IsiFlags::from_bits_truncate(f);
        model = fl.bits();
        b = b.isi_flags(fl);
    }
    let mut k = 0;
    while k < 4 {
        let which: u8 = kani::any();
        kani::assume(which < 10);
        b = step(b, which, kani::any(), &mut model);
        if k == 1 && kani::any() {
            let f: u16 = kani::any();
            let fl = IsiFlags::from_bits_truncate(f);
            model = fl.bits();
            b = b.isi_flags(fl);
        }
        k += 1;
    }
    let set_prefix: bool = kani::any();
    let pc: u8 = kani::any();
    kani::assume(pc < 0x80);
    if set_prefix { b = b.isi_prefix(pc as char); }
    let set_interval: bool = kani::any();
    let ims: u16 = kani::any();
    if set_interval { b = b.isi_interval(Duration::from_millis(ims as u64)); }
    let set_reqi: bool = kani::any();
    let rq: u8 = kani::any();
    if set_reqi { b = b.isi_reqi(RequestId(rq)); }
    let proto: u8 = kani::any();
    kani::assume(proto < 4);
    let port: u16 = kani::any();
    let remote = SocketAddr::from(([127, 0, 0, 1], 29999));
    let local = SocketAddr::from(([0, 0, 0, 0], port));
    // an earlier transport choice that the final one must override completely
    let earlier: u8 = kani::any();
    kani::assume(earlier < 4);
    let port0: u16 = kani::any();
    b = match earlier {
        0 => b,
        1 => b.udp(remote, Some(SocketAddr::from(([0, 0, 0, 0], port0)))),
        2 => b.tcp(remote),
        _ => b.relay(),
    };
    b = match proto {
        0 => b.tcp(remote),
        1 => b.udp(remote, Some(local)),
        2 => b.udp(remote, None),
        _ => b.relay(),
    };
    let isi = b.isi();
    assert!(isi.flags.bits() == model, "C18:flags are exactly the configured flags");
    assert!(isi.prefix as u32 == if set_prefix { pc as u32 } else { 0 }, "C18:prefix as configured, default 0");
    assert!(isi.interval == if set_interval { Duration::from_millis(ims as u64) } else { Duration::ZERO }, "C18:interval as configured, default 0");
    assert!(isi.reqi.0 == if set_reqi { rq } else { 0 }, "C18:request id as configured, default 0");
    assert!(isi.udpport == if proto == 1 { port } else { 0 }, "C18:udp port is the local port, otherwise 0");
    assert!(isi.version == 9, "C18:InSim version 9");
    assert!(isi.iname.as_bytes() == b"insim.rs", "C18:default program name");
    assert!(isi.admin.is_empty(), "C18:default admin password empty");
    kani::cover!(proto == 2, "udp without a local address");
    kani::cover!(earlier == 1 && proto == 0 && port0 != 0, "udp with a local port, then tcp");
    kani::cover!(model == 0x0FFC, "all ten flags set");
    std::mem::forget(isi);
    std::mem::forget(b);
}

/// name and password: later calls override earlier ones, None restores the default
#[kani::proof]
#[kani::unwind(20)]
#[kani::stub(alloc::fmt::format, stub_format)]
fn c18_builder_strings() {
    let mut b = Builder::default();
    let first: bool = kani::any();
    if first { b = b.isi_iname(String::from("first")).isi_admin_password(String::from("pw1")); }
    let second: u8 = kani::any();
    kani::assume(second < 3);
    b = match second {
        0 => b,
        1 => b.isi_iname(String::from("second")).isi_admin_password(String::from("pw2")),
        _ => b.isi_iname(None).isi_admin_password(None),
    };
    let isi = b.isi();
    let (en, ep): (&[u8], &[u8]) = match (first, second) {
        (_, 1) => (b"second", b"pw2"),
        (_, 2) => (b"insim.rs", b""),
        (true, _) => (b"first", b"pw1"),
        _ => (b"insim.rs", b""),
    };
    assert!(isi.iname.as_bytes() == en, "C18:program name as configured");
    assert!(isi.admin.as_bytes() == ep, "C18:admin password as configured");
    kani::cover!(first && second == 2, "cleared after being set");
    std::mem::forget(isi);
    std::mem::forget(b);
}

static mut OUT: [u8; 64] = [0; 64];
static mut OUTLEN: usize = 0;
static mut WRITES: usize = 0;
#[derive(Debug)]
struct Rec;
impl Read for Rec {
    fn read(&mut self, _b: &mut [u8]) -> std::io::Result<usize> { Ok(0) }
}
impl Write for Rec {
    fn write(&mut self, buf: &[u8]) -> std::io::Result<usize> {
        let mut i = 0;
        unsafe {
            WRITES += 1;
            while i < buf.len() && OUTLEN < 64 { OUT[OUTLEN] = buf[i]; OUTLEN += 1; i += 1; }
        }
        Ok(buf.len())
    }
    fn flush(&mut self) -> std::io::Result<()> { Ok(()) }
}

/// handshake over a recording transport: exactly the ISI frame and nothing else, in the configured
/// mode. The builder configuration is concrete apart from the request id: Codec::encode over a
/// symbolic 44-byte ISI does not close (16 GB / 40 min, DESIGN.md section 8); the ISI field mapping
/// for every value is the subject of c01/c02_isi_*, the builder's of c18_builder_program.
macro_rules! handshake {
    ($name:ident, $compressed:expr) => {
        #[kani::proof]
        #[kani::unwind(70)]
        #[kani::stub(alloc::fmt::format, stub_format)]
        #[kani::stub(insim_core::string::codepages::to_lossy_bytes, stub_to_lossy_bytes)]
        fn $name() {
            let compressed: bool = $compressed;
            let rq: u8 = kani::any();
            let mut b = Builder::default()
                .isi_flag_mci(true)
                .isi_flag_con(true)
                .isi_reqi(RequestId(rq))
                .isi_prefix('!')
                .isi_interval(Duration::from_millis(1000));
            b = if compressed { b.compressed() } else { b.uncompressed() };
            let isi = b.isi();
            let mode = if compressed { Mode::Compressed } else { Mode::Uncompressed };
            let mut fr = Framed::new(Box::new(Rec), Codec::new(mode));
            let r = fr.handshake(isi);
            assert!(r.is_ok(), "C18:handshake succeeds on a healthy transport");
            unsafe {
                assert!(OUTLEN == 44, "C18:exactly one 44-byte ISI frame is sent");
                assert!(OUT[0] == if compressed { 11 } else { 44 }, "C18:size byte in the configured mode");
                assert!(OUT[1] == 1, "C18:first frame is ISI");
                assert!(OUT[2] == rq && OUT[3] == 0, "C18:ReqI, Zero");
                assert!(OUT[4] == 0 && OUT[5] == 0, "C18:UDPPort 0 for TCP");
                assert!(OUT[6] == 96 && OUT[7] == 0, "C18:Flags MCI|CON");
                assert!(OUT[8] == 9 && OUT[9] == b'!', "C18:InSimVer, Prefix");
                assert!(OUT[10] == 0xE8 && OUT[11] == 0x03, "C18:Interval 1000 ms");
                let j: usize = kani::any();
                kani::assume(j < 16);
                assert!(OUT[12 + j] == 0, "C18:empty admin password");
                let name = b"insim.rs";
                assert!(OUT[28 + j] == if j < 8 { name[j] } else { 0 }, "C18:program name NUL padded");
            }
            std::mem::forget(r);
            std::mem::forget(fr);
            std::mem::forget(b);
        }
    };
}
handshake!(c18_handshake_compressed, true);
handshake!(c18_handshake_uncompressed, false);
