//! Kani proof harnesses over the real insim.rs code (path dependencies on /repo).
//! Every harness function is named `<property>_<what>`, lower case, e.g. `c13_vehicle_wire`.
//! `tools/registry.py` lists them with tier, bounds and expectations.
#![allow(dead_code, unused_imports, unused_variables, unused_mut, clippy::all)]

#[cfg(kani)]
pub mod common;

#[cfg(kani)]
mod c03;
#[cfg(kani)]
mod c04;
#[cfg(kani)]
mod c06;
#[cfg(kani)]
mod c07;
#[cfg(kani)]
mod c08;
#[cfg(kani)]
mod c09;
#[cfg(kani)]
mod c11;
#[cfg(kani)]
mod c13;
#[cfg(kani)]
mod c14;
#[cfg(kani)]
mod c15;
#[cfg(kani)]
mod c16;
#[cfg(kani)]
mod c17;
#[cfg(kani)]
mod c18;

// generated on every run from /repo's current source by tools/gen_harness.py
#[cfg(kani)]
mod gen_tables;
#[cfg(kani)]
mod gen_packets;
