//! C06 — writes reach the transport complete, contiguous and in order (blocking connection).
use crate::common::*;
use insim::identifiers::RequestId;
use insim::insim::{Small, SmallType, Tiny, TinyType};
use insim::net::blocking_impl::Framed;
use insim::net::{Codec, Mode};
use std::io::{Read, Write};

static mut OUT: [u8; 32] = [0; 32];
static mut OUTLEN: usize = 0;
static mut CALLS: usize = 0;

/// accepts a nondeterministic k in 1..=len bytes per call (a short write, as any stream socket may)
#[derive(Debug)]
struct Short;
impl Read for Short {
    fn read(&mut self, _b: &mut [u8]) -> std::io::Result<usize> { Ok(0) }
}
impl Write for Short {
    fn write(&mut self, buf: &[u8]) -> std::io::Result<usize> {
        if buf.is_empty() { return Ok(0); }
        let k: usize = kani::any();
        kani::assume(k >= 1 && k <= buf.len());
        let mut i = 0;
        unsafe {
            CALLS += 1;
            while i < k && OUTLEN < 32 { OUT[OUTLEN] = buf[i]; OUTLEN += 1; i += 1; }
        }
        Ok(k)
    }
    fn flush(&mut self) -> std::io::Result<()> { Ok(()) }
}

/// two packets (TINY then SMALL, symbolic contents), both modes, any acceptance pattern
#[kani::proof]
#[kani::unwind(14)]
#[kani::stub(alloc::fmt::format, stub_format)]
fn c06_blocking_short_writes() {
    let compressed: bool = kani::any();
    let mode = if compressed { Mode::Compressed } else { Mode::Uncompressed };
    let mut f = Framed::new(Box::new(Short), Codec::new(mode));
    let r1q: u8 = kani::any();
    let r1 = f.write(Tiny { reqi: RequestId(r1q), subt: TinyType::Ping });
    let ok1 = r1.is_ok();
    std::mem::forget(r1);
    let r2q: u8 = kani::any();
    let on: bool = kani::any();
    let r2 = f.write(Small { reqi: RequestId(r2q), subt: SmallType::Tms(on) });
    let ok2 = r2.is_ok();
    std::mem::forget(r2);
    std::mem::forget(f);
    assert!(ok1 && ok2, "C06:write succeeds on a transport that always makes progress");
    unsafe {
        assert!(OUTLEN == 12, "C06:both frames reach the transport completely");
        assert!(OUT[0] == if compressed { 1 } else { 4 } && OUT[1] == 3 && OUT[2] == r1q && OUT[3] == 3, "C06:first frame intact and first");
        assert!(OUT[4] == if compressed { 2 } else { 8 } && OUT[5] == 4 && OUT[6] == r2q && OUT[7] == 4, "C06:second frame header contiguous after the first");
        assert!(OUT[8] == on as u8 && OUT[9] == 0 && OUT[10] == 0 && OUT[11] == 0, "C06:second frame body intact");
        kani::cover!(CALLS == 12, "one byte accepted per call");
        kani::cover!(CALLS == 2, "whole frames accepted");
    }
}
