//! C06 — writes reach the transport complete, contiguous and in order (blocking connection).
use crate::common::*;
use insim::identifiers::RequestId;
use insim::insim::{Small, SmallType, Tiny, TinyType};
use insim::net::blocking_impl::Framed;
use insim::net::{Codec, Mode};
use std::io::{Read, Write};

static mut OUT: [u8; 32] = [0; 32];
static mut OUTLEN: usize = 0;
static mut CALLS: usize = 0;

/// accepts a nondeterministic k in 1..=len bytes per call (a short write, as any stream socket may)
#[derive(Debug)]
struct Short;
impl Read for Short {
    fn read(&mut self, _b: &mut [u8]) -> std::io::Result<usize> { Ok(0) }
}
impl Write for Short {
    fn write(&mut self, buf: &[u8]) -> std::io::Result<usize> {
        if buf.is_empty() { return Ok(0); }
        let k: usize = kani::any();
        kani::assume(k >= 1 && k <= buf.len());
        let mut i = 0;
        unsafe {
            CALLS += 1;
            while i < k && OUTLEN < 32 { OUT[OUTLEN] = buf[i]; OUTLEN += 1; i += 1; }
        }
        Ok(k)
    }
    fn flush(&mut self) -> std::io::Result<()> { Ok(()) }
}

// ---- Codec::encode is replaced by a model that hands out frames of symbolic content (a 4-byte
// and an 8-byte one) from static storage: Framed::write over Bytes produced by the real encoder does
// not close once the transport may accept part of a frame (12-18 GB: symbolic-offset reads through
// Bytes' tagged data pointer). What Codec::encode returns is the subject of C03; what this decides is
// that Framed::write delivers whatever it returned, complete, contiguous and in call order.
static mut FRAMES: [[u8; 8]; 2] = [[0; 8]; 2];
static mut FLEN: [usize; 2] = [0; 2];
static mut NEXT: usize = 0;
pub fn model_encode(_this: &Codec, _msg: &insim::Packet) -> insim::Result<bytes::Bytes> {
    unsafe {
        let i = NEXT;
        NEXT += 1;
        kani::assume(i < 2);
        Ok(bytes::Bytes::from_static(&FRAMES[i][..FLEN[i]]))
    }
}

fn setup_frames() {
    let f0: [u8; 8] = kani::any();
    let f1: [u8; 8] = kani::any();
    unsafe {
        FRAMES[0] = f0;
        FRAMES[1] = f1;
        // concrete lengths (a symbolic slice length is what does not close): a 4-byte then an 8-byte frame
        FLEN[0] = 4;
        FLEN[1] = 8;
    }
}

/// two packets, frames of 4 and 8 symbolic bytes, any acceptance pattern
#[kani::proof]
#[kani::unwind(10)]
#[kani::stub(alloc::fmt::format, stub_format)]
#[kani::stub(insim::net::Codec::encode, model_encode)]
fn c06_blocking_short_writes() {
    setup_frames();
    let mut f = Framed::new(Box::new(Short), Codec::new(Mode::Compressed));
    let r1 = f.write(Tiny { reqi: RequestId(1), subt: TinyType::Ping });
    let ok1 = r1.is_ok();
    std::mem::forget(r1);
    let r2 = f.write(Small { reqi: RequestId(2), subt: SmallType::None });
    let ok2 = r2.is_ok();
    std::mem::forget(r2);
    std::mem::forget(f);
    assert!(ok1 && ok2, "C06:write succeeds on a transport that always makes progress");
    unsafe {
        assert!(NEXT == 2, "C06:each write encodes exactly once");
        assert!(OUTLEN == FLEN[0] + FLEN[1], "C06:both frames reach the transport completely");
        let i: usize = kani::any();
        kani::assume(i < OUTLEN);
        let expect = if i < FLEN[0] { FRAMES[0][i] } else { FRAMES[1][i - FLEN[0]] };
        assert!(OUT[i] == expect, "C06:frames contiguous, intact and in call order");
        kani::cover!(CALLS == 12, "one byte accepted per call");
        kani::cover!(CALLS == 2, "whole frames accepted");
    }
}

/// vacuity twin: claims a single transport call per packet suffices
#[kani::proof]
#[kani::unwind(10)]
#[kani::stub(alloc::fmt::format, stub_format)]
#[kani::stub(insim::net::Codec::encode, model_encode)]
fn c06_twin_must_fail() {
    setup_frames();
    let mut f = Framed::new(Box::new(Short), Codec::new(Mode::Compressed));
    let r1 = f.write(Tiny { reqi: RequestId(1), subt: TinyType::Ping });
    std::mem::forget(r1);
    std::mem::forget(f);
    unsafe { assert!(CALLS == 1, "TWIN:one transport call per packet"); }
}

