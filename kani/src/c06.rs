// placeholder
