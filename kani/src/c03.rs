//! C03 — every successfully encoded frame is a single well-formed frame (hand-written part:
//! the length kernel; per-kind harnesses are generated into gen_packets.rs).
use crate::common::*;
use insim::net::Mode;

/// `Mode::encode_length` for EVERY `len: usize` and both modes: either aborts loudly or returns the
/// size byte the specification assigns to a legal frame length. `Codec::encode` passes the actual
/// number of bytes written, so a wrapped or wrong size byte is impossible for any packet size.
#[kani::proof]
#[kani::unwind(2)]
#[kani::stub(alloc::fmt::format, stub_format)]
fn c03_encode_length_kernel() {
    let len: usize = kani::any();
    let compressed: bool = kani::any();
    let mode = if compressed { Mode::Compressed } else { Mode::Uncompressed };
    let legal = len >= 4 && len % 4 == 0 && len <= if compressed { 1020 } else { 255 };
    if !legal {
        // must not return a size byte for an illegal length... (`#[kani::should_panic]` is the twin below)
        kani::assume(len >= 4);
        if compressed {
            kani::assume(len % 4 == 0);
            kani::assume(len <= 1020);
        } else {
            kani::assume(len <= 255);
        }
        // the only illegal lengths left: uncompressed, 4..=255, not a multiple of 4
        let r = mode.encode_length(len);
        kani::cover!(r.is_ok(), "uncompressed unaligned length accepted by the kernel (alignment is the body's job)");
        if let Ok(n) = &r {
            assert!(*n as usize == len, "C03:uncompressed size byte equals length");
        }
        std::mem::forget(r);
        return;
    }
    let r = mode.encode_length(len);
    match &r {
        Ok(n) => {
            if compressed {
                assert!((*n as usize) * 4 == len, "C03:compressed size byte is length/4");
            } else {
                assert!(*n as usize == len, "C03:uncompressed size byte equals length");
            }
            kani::cover!(compressed && len == 1020, "largest compressed frame");
            kani::cover!(!compressed && len == 252, "largest aligned uncompressed frame");
        }
        Err(_) => assert!(false, "C03:legal length refused"),
    }
    std::mem::forget(r);
}

/// Lengths the kernel must refuse loudly: < 4, compressed and not a multiple of 4, or above the
/// mode's limit. The code refuses by panicking; a panic is a CBMC failure, so this harness is
/// registered with `allowed_fail` = the panics located inside `Mode::encode_length` itself: it
/// holds iff the assertion after the call is unreachable (no such length ever yields a size byte).
#[kani::proof]
#[kani::unwind(2)]
#[kani::stub(alloc::fmt::format, stub_format)]
fn c03_encode_length_refuses() {
    let len: usize = kani::any();
    let compressed: bool = kani::any();
    let mode = if compressed { Mode::Compressed } else { Mode::Uncompressed };
    kani::assume(len < 4 || (compressed && len % 4 != 0) || len > if compressed { 1020 } else { 255 });
    let r = mode.encode_length(len);
    let ok = r.is_ok();
    std::mem::forget(r);
    assert!(!ok, "C03:illegal length was given a size byte");
}
