//! C08 — UDP, WRITE half of the blocking adaptor only: each written packet leaves as exactly one
//! datagram holding exactly its frame. (The read half does not close: DESIGN.md C08.)
//! `UdpSocket::send`/`recv` are stubbed: a datagram socket transmits the whole buffer in one datagram
//! or fails; the stub records every datagram.
use crate::common::*;
use insim::identifiers::RequestId;
use insim::insim::{Small, SmallType, Tiny, TinyType};
use insim::net::blocking_impl::{Framed, UdpStream};
use insim::net::{Codec, Mode};
use std::io::Write;
use std::net::UdpSocket;
use std::os::fd::FromRawFd;

static mut SENT: [[u8; 16]; 3] = [[0; 16]; 3];
static mut SENTLEN: [usize; 3] = [0; 3];
static mut SENDS: usize = 0;
pub fn stub_send(_s: &UdpSocket, buf: &[u8]) -> std::io::Result<usize> {
    unsafe {
        let k = SENDS;
        SENDS += 1;
        if k < 3 {
            let mut i = 0;
            while i < buf.len() && i < 16 { SENT[k][i] = buf[i]; i += 1; }
            SENTLEN[k] = buf.len();
        }
        Ok(buf.len())
    }
}

macro_rules! udp_write {
    ($name:ident, $n:expr) => {
        /// `UdpStream::write` of an $n-byte frame (symbolic content): one `send`, same bytes, full count
        #[kani::proof]
        #[kani::unwind(20)]
        #[kani::stub(std::net::UdpSocket::send, stub_send)]
        fn $name() {
            let f: [u8; $n] = kani::any();
            let sock = unsafe { UdpSocket::from_raw_fd(100) };
            let mut s = UdpStream::from(sock);
            let r = s.write(&f);
            assert!(matches!(r, Ok(k) if k == $n), "C08:the whole frame is accepted");
            unsafe {
                assert!(SENDS == 1, "C08:a written packet leaves as exactly one datagram");
                assert!(SENTLEN[0] == $n, "C08:the datagram holds exactly the frame");
                let i: usize = kani::any();
                kani::assume(i < $n);
                assert!(SENT[0][i] == f[i], "C08:datagram bytes are the frame bytes");
            }
            std::mem::forget(r);
            std::mem::forget(s);
        }
    };
}
udp_write!(c08_udp_write_4, 4);
udp_write!(c08_udp_write_12, 12);

// frames handed out by the encoder model (as in C06)
static mut FRAMES: [[u8; 8]; 2] = [[0; 8]; 2];
static mut NEXT: usize = 0;
pub fn model_encode(_this: &Codec, _msg: &insim::Packet) -> insim::Result<bytes::Bytes> {
    unsafe {
        let i = NEXT;
        NEXT += 1;
        kani::assume(i < 2);
        Ok(bytes::Bytes::from_static(if i == 0 { &FRAMES[0][..4] } else { &FRAMES[1][..8] }))
    }
}

/// two packets through a blocking connection over the UDP adaptor: two datagrams, each exactly its frame
#[kani::proof]
#[kani::unwind(20)]
#[kani::stub(alloc::fmt::format, stub_format)]
#[kani::stub(std::net::UdpSocket::send, stub_send)]
#[kani::stub(insim::net::Codec::encode, model_encode)]
fn c08_framed_udp_two_packets() {
    let f0: [u8; 8] = kani::any();
    let f1: [u8; 8] = kani::any();
    unsafe { FRAMES[0] = f0; FRAMES[1] = f1; }
    let sock = unsafe { UdpSocket::from_raw_fd(100) };
    let mut fr = Framed::new(Box::new(UdpStream::from(sock)), Codec::new(Mode::Compressed));
    let r1 = fr.write(Tiny { reqi: RequestId(1), subt: TinyType::Ping });
    let ok1 = r1.is_ok();
    std::mem::forget(r1);
    let r2 = fr.write(Small { reqi: RequestId(2), subt: SmallType::None });
    let ok2 = r2.is_ok();
    std::mem::forget(r2);
    std::mem::forget(fr);
    assert!(ok1 && ok2, "C08:writes succeed");
    unsafe {
        assert!(SENDS == 2, "C08:each written packet leaves as exactly one datagram");
        assert!(SENTLEN[0] == 4 && SENTLEN[1] == 8, "C08:each datagram holds exactly its frame");
        let i: usize = kani::any();
        kani::assume(i < 8);
        if i < 4 { assert!(SENT[0][i] == f0[i], "C08:first datagram is the first frame"); }
        assert!(SENT[1][i] == f1[i], "C08:second datagram is the second frame");
    }
}

/// vacuity twin
#[kani::proof]
#[kani::unwind(20)]
#[kani::stub(std::net::UdpSocket::send, stub_send)]
fn c08_twin_must_fail() {
    let f: [u8; 4] = kani::any();
    let sock = unsafe { UdpSocket::from_raw_fd(100) };
    let mut s = UdpStream::from(sock);
    let r = s.write(&f);
    std::mem::forget(r);
    std::mem::forget(s);
    unsafe { assert!(SENDS == 0, "TWIN:nothing is ever sent"); }
}
