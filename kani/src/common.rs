//! Stubs and helpers shared by the harnesses.
use std::borrow::Cow;

/// Stub for `alloc::fmt::format`: error-message formatting is not the subject of any claim.
pub fn stub_format(_args: std::fmt::Arguments<'_>) -> String {
    String::new()
}

/// ASCII model of `insim_core::string::codepages::to_lossy_string` (see DESIGN.md 2.2c).
pub fn stub_to_lossy_string(input: &[u8]) -> Cow<'_, str> {
    let mut i = 0;
    while i < input.len() {
        kani::assume(input[i] < 0x80);
        i += 1;
    }
    Cow::Borrowed(unsafe { std::str::from_utf8_unchecked(input) })
}

/// ASCII model of `insim_core::string::codepages::to_lossy_bytes`.
pub fn stub_to_lossy_bytes(input: &str) -> Cow<'_, [u8]> {
    Cow::Borrowed(input.as_bytes())
}

/// A `String` of exactly `N` symbolic printable ASCII bytes without NUL and without `^`.
pub fn ascii_string<const N: usize>() -> String {
    let b: [u8; N] = kani::any();
    let mut i = 0;
    while i < N {
        kani::assume(b[i] >= 0x20 && b[i] < 0x7f && b[i] != b'^');
        i += 1;
    }
    unsafe { String::from_utf8_unchecked(b.to_vec()) }
}

/// Stub for `std::hash::RandomState::new` (reads the OS random source through `syscall`, which Kani
/// does not model): fixed keys. Hash *values* are the subject of no property; set semantics are.
pub fn stub_random_state() -> std::hash::RandomState {
    unsafe { std::mem::transmute::<(u64, u64), std::hash::RandomState>((0x0123_4567_89ab_cdef, 0x0fed_cba9_8765_4321)) }
}
